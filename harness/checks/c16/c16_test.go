// C16 — pubkey cache maps index and key exactly along each deposit history.
//
// Technique: rapid-generated state machine over a forest of *common.PubkeyCache handles
// (new from a registry / empty, raw AddValidator with every index kind x key kind the callers'
// precondition allows, chains that share a handle one behind the other and run the deposit
// protocol of phase0/deposit.go, out-of-domain lookups), compared after EVERY action against
// pkmodel (pkmodel.go: a handle is a sequence of distinct keys): every live handle must answer
// Pubkey(i) for i in 0..max+1 and ValidatorIndex(k) for all 8 alphabet keys exactly as its sequence
// says; AddValidator must return the same handle (no-op, append), a new handle (conflict) or an
// error (beyond next) as the model says. Every call runs under recover and a 10 s watchdog; the
// case is written in flight before it runs because one defect class (runaway recursion) ends in a
// fatal stack overflow if it is left running (in practice the watchdog sees it first, see below).
//
// Alphabet: compressed BLS pubkeys of secret keys 1..8 (the cache itself never decompresses on
// these paths; real keys let the check also decompress what Pubkey(i) hands out).
//
// Sensitivity (tools/trymut.py C16 eth2/beacon/common/validator_pubkeys.go, quick tier, on the repaired
// tree; every mutant also tried with the two committed regress replays moved away, so that the
// generator alone has to find it - same verdicts):
//
//	M1  parent lookup bound off by one     `if ok && index >= pc.trustedParentCount {` -> `>`              CAUGHT AddValidator/blocked (45 s)
//	M2  parent lookup not bounded          (the repair 6f1cfb6 reverted)                                  CAUGHT AddValidator/blocked + ValidatorIndex/sibling-entry (45 s)
//	M3  trustedParentCount off by one      `trustedParentCount: existingIndex,` -> `existingIndex + 1,`   CAUGHT AddValidator/blocked (45 s)
//	M4  trustedParentCount off by one      fresh-key conflict: `trustedParentCount: index,` -> `index + 1,` CAUGHT AddValidator/blocked (50 s)
//	M5  no-op path appending anyway        `// append is no-op ... return pc, nil` removed (falls through)  CAUGHT AddValidator/error-on-noop (1 s)
//	M6  conflicting add mutates old handle `pc.pub2idx[pub] = index` before the fork-out (moved-earlier)  CAUGHT ValidatorIndex/wrong-index (1 s)
//	M7  same, fresh-key conflict branch                                                                   CAUGHT ValidatorIndex/sibling-entry (2 s)
//	M8  own-part bound off by one          unsafePubkey `if index >= pc.trustedParentCount {` -> `>`       CAUGHT Pubkey/missing-entry (1 s)
//	M9  beyond-next silently accepted      `index != expected {` -> `index < expected {`                   CAUGHT AddValidator/no-error-beyond-next (2 s)
//	M10 append forgets the reverse map     `pc.pub2idx[pub] = index` removed from the append path         CAUGHT ValidatorIndex/missing-entry (1 s)
//	M11 bound only below a root parent     `if ok && pc.parent.parent == nil && index >= ...` (depth>=2 only) CAUGHT ValidatorIndex/sibling-entry (1 s)
//	M12 bound only below a forked parent   `if ok && pc.parent.parent != nil && index >= ...`              CAUGHT ValidatorIndex/sibling-entry (3 s)
//
// (blocked verdicts cost 2 x 10 s watchdog + <=15 s shrinking; the runaway recursion is quadratic in its
// depth, so it hits the watchdog long before the 64 MiB stack limit.)
package c16

import (
	"crypto/sha256"
	"encoding/binary"
	"encoding/json"
	"flag"
	"fmt"
	"os"
	"path/filepath"
	"reflect"
	"runtime/debug"
	"sort"
	"strings"
	"sync"
	"sync/atomic"
	"testing"
	"time"
	"unsafe"

	blsu "github.com/protolambda/bls12-381-util"
	"github.com/protolambda/zrnt/eth2/beacon/common"
	"github.com/protolambda/zrnt/eth2/beacon/phase0"
	"github.com/protolambda/zrnt/eth2/configs"
	"pgregory.net/rapid"

	"zrntverif/report"
	"zrntverif/sim"
)

// ---------------------------------------------------------------- case value

type Action struct {
	Op    string `json:"op"`              // new | share | deposit | add | lookup
	H     int    `json:"h,omitempty"`     // add, share, lookup: handle id (creation order)
	Chain int    `json:"chain,omitempty"` // deposit: chain id (creation order)
	Index uint64 `json:"index,omitempty"` // add, lookup: validator index; share: validator count of the new chain
	Key   int    `json:"key"`             // add, deposit, lookup: alphabet letter 0..7; lookup: -1 = a key outside the alphabet
	Keys  []int  `json:"keys,omitempty"`  // new: registry contents, in order
	Empty bool   `json:"empty,omitempty"` // new: EmptyPubkeyCache() instead of NewPubkeyCache(registry)
	Kind  string `json:"kind,omitempty"`  // generator's label, informational
}

type Case struct {
	Actions []Action `json:"actions"`
	Note    string   `json:"note,omitempty"`
}

// ---------------------------------------------------------------- alphabet

var alphabet = func() (out [alphabetSize]common.BLSPubkey) {
	for i := 0; i < alphabetSize; i++ {
		var skb [32]byte
		skb[31] = byte(i + 1)
		var sk blsu.SecretKey
		if err := sk.Deserialize(&skb); err != nil {
			panic(err)
		}
		pk, err := blsu.SkToPk(&sk)
		if err != nil {
			panic(err)
		}
		out[i] = common.BLSPubkey(pk.Serialize())
	}
	return
}()

func letterOf(p common.BLSPubkey) string {
	for i := range alphabet {
		if alphabet[i] == p {
			return string(rune('A' + i))
		}
	}
	return fmt.Sprintf("?%x", p[:4])
}

func letter(k int) string {
	if k < 0 || k >= alphabetSize {
		return "?"
	}
	return string(rune('A' + k))
}

func seqString(s []int) string {
	var b strings.Builder
	b.WriteByte('[')
	for _, k := range s {
		b.WriteString(letter(k))
	}
	b.WriteByte(']')
	return b.String()
}

// a 48-byte string that is no alphabet key (not a valid point either: the cache never looks inside)
func foreignKey(n uint64) common.BLSPubkey {
	var in [8]byte
	binary.LittleEndian.PutUint64(in[:], n)
	a := sha256.Sum256(in[:])
	b := sha256.Sum256(a[:])
	var p common.BLSPubkey
	copy(p[:32], a[:])
	copy(p[32:], b[:16])
	return p
}

func registryOf(keys []int) (common.ValidatorRegistry, error) {
	reg, err := phase0.AsValidatorsRegistry(phase0.ValidatorsRegistryType(configs.Minimal).Default(nil), nil)
	if err != nil {
		return nil, err
	}
	for _, k := range keys {
		v := phase0.Validator{Pubkey: alphabet[k], EffectiveBalance: 32_000_000_000}
		if err := reg.Append(v.View()); err != nil {
			return nil, err
		}
	}
	return reg, nil
}

// ---------------------------------------------------------------- observations (evidence only)

type obs struct {
	results      map[string]int // append/noop/fork/error
	conflicts    []string       // per fork-out: key kind + where in the handle
	forkOfFork   bool
	maxDepth     int
	siblingLooks int // lookups on a forked handle of a key that exists only on another history of its tree
	topups       int
	behindFork   bool // a chain behind the tip of a shared handle forked out
	sibAdd       bool // a key living only on another history was added onto a forked handle
	shape        string
	hits         map[string]bool
}

func newObs() *obs { return &obs{results: map[string]int{}, hits: map[string]bool{}} }

// ---------------------------------------------------------------- execution

// watchdog: 10 s for calls that take microseconds. Once a blocked verdict has been confirmed by a
// second execution in this process (i.e. while rapid shrinks it) the bound drops to 2 s - still a
// 10^5 margin - so that shrinking gets more than a handful of attempts; every verdict is still
// confirmed by a re-run.
var watchdogNs atomic.Int64

func init() { watchdogNs.Store(int64(10 * time.Second)) }

func watchdogBound() time.Duration { return time.Duration(watchdogNs.Load()) }

// guard runs one call into the code under test under recover and the watchdog.
func guard(op string, detail func() string, fn func()) *report.Failure {
	var pf *report.Failure
	bound := watchdogBound()
	ok := report.WithTimeout(bound, func() {
		defer func() {
			if p := recover(); p != nil {
				pf = report.Failf(op+"/panic", "%s panicked: %v", detail(), p)
			}
		}()
		fn()
	})
	if !ok {
		return report.Failf(op+"/blocked", "%s did not return within %v", detail(), bound)
	}
	return pf
}

// quarantine parks a call that ran away. A leaked goroutine cannot be killed, and the one known
// runaway (fork-out recursion) burns a core for minutes before its stack limit is reached; several of
// them starve the rest of the run. Every level of that recursion read-locks the handles of this case,
// so write-locking them (never released; the case is abandoned anyway) puts the runaway to sleep.
// Damage control only: it runs after the verdict has been taken and touches nothing a later case uses.
func (w *world) quarantine() {
	for _, pc := range w.impl {
		if pc == nil {
			continue
		}
		f := reflect.ValueOf(pc).Elem().FieldByName("rwLock")
		if !f.IsValid() || !f.CanAddr() {
			continue
		}
		if mu, ok := reflect.NewAt(f.Type(), unsafe.Pointer(f.UnsafeAddr())).Interface().(*sync.RWMutex); ok {
			go mu.Lock()
		}
	}
}

type world struct {
	m       model
	impl    []*common.PubkeyCache // by handle id
	o       *obs
	step    int
	history []string
}

func (w *world) ctx() string {
	return fmt.Sprintf("after step %d of history {%s}", w.step, strings.Join(w.history, "; "))
}

// sweep: every live handle answers every index 0..max+1 and every alphabet key as its sequence says.
// One watchdog for the whole sweep; `cur` attributes a hang or panic to the exact call.
func (w *world) sweep() *report.Failure {
	maxLen := 0
	for _, s := range w.m.Seqs {
		if len(s) > maxLen {
			maxLen = len(s)
		}
	}
	var mu sync.Mutex
	curOp, cur := "Pubkey", ""
	set := func(op, s string) { mu.Lock(); curOp, cur = op, s; mu.Unlock() }
	get := func() (string, string) { mu.Lock(); defer mu.Unlock(); return curOp, cur }
	var fail *report.Failure
	bound := watchdogBound()
	done := report.WithTimeout(bound, func() {
		defer func() {
			if p := recover(); p != nil {
				op, c := get()
				fail = report.Failf(op+"/panic", "%s panicked: %v; %s", c, p, w.ctx())
			}
		}()
		for h, pc := range w.impl {
			seq := w.m.Seqs[h]
			forked := w.m.Info[h].Parent >= 0
			for i := 0; i <= maxLen+1; i++ {
				set("Pubkey", fmt.Sprintf("handle#%d%s.Pubkey(%d)", h, seqString(seq), i))
				got, ok := pc.Pubkey(common.ValidatorIndex(i))
				wantKey, wantOk := w.m.pubkeyAt(h, uint64(i))
				switch {
				case ok && got == nil:
					fail = report.Failf("Pubkey/nil-with-ok", "handle#%d%s.Pubkey(%d) = (nil, true); %s", h, seqString(seq), i, w.ctx())
				case ok && !wantOk:
					sig := "Pubkey/phantom-entry"
					if w.otherHistoryHasAt(h, i, got.Compressed) {
						sig = "Pubkey/sibling-entry"
					}
					fail = report.Failf(sig, "handle#%d%s.Pubkey(%d) = %s, but its history has no index %d; %s", h, seqString(seq), i, letterOf(got.Compressed), i, w.ctx())
				case !ok && wantOk:
					fail = report.Failf("Pubkey/missing-entry", "handle#%d%s.Pubkey(%d) not found, history says %s; %s", h, seqString(seq), i, letter(wantKey), w.ctx())
				case ok && got.Compressed != alphabet[wantKey]:
					sig := "Pubkey/wrong-key"
					if w.otherHistoryHasAt(h, i, got.Compressed) {
						sig = "Pubkey/sibling-entry"
					}
					fail = report.Failf(sig, "handle#%d%s.Pubkey(%d) = %s, history says %s; %s", h, seqString(seq), i, letterOf(got.Compressed), letter(wantKey), w.ctx())
				}
				if fail != nil {
					return
				}
			}
			for k := 0; k < alphabetSize; k++ {
				set("ValidatorIndex", fmt.Sprintf("handle#%d%s.ValidatorIndex(%s)", h, seqString(seq), letter(k)))
				got, ok := pc.ValidatorIndex(alphabet[k])
				want, wantOk := w.m.indexOf(h, k)
				other := w.m.onOtherHistory(h, k)
				if forked && other && w.o != nil {
					w.o.siblingLooks++
				}
				switch {
				case ok && !wantOk:
					sig := "ValidatorIndex/phantom-entry"
					if other {
						sig = "ValidatorIndex/sibling-entry"
					}
					fail = report.Failf(sig, "handle#%d%s.ValidatorIndex(%s) = %d, but %s is not on its history; %s", h, seqString(seq), letter(k), got, letter(k), w.ctx())
				case !ok && wantOk:
					fail = report.Failf("ValidatorIndex/missing-entry", "handle#%d%s.ValidatorIndex(%s) not found, history says %d; %s", h, seqString(seq), letter(k), want, w.ctx())
				case ok && uint64(got) != uint64(want):
					fail = report.Failf("ValidatorIndex/wrong-index", "handle#%d%s.ValidatorIndex(%s) = %d, history says %d; %s", h, seqString(seq), letter(k), got, want, w.ctx())
				}
				if fail != nil {
					return
				}
			}
		}
	})
	if !done {
		w.quarantine()
		op, c := get()
		return report.Failf(op+"/blocked", "%s did not return within %v; %s", c, bound, w.ctx())
	}
	return fail
}

func (w *world) otherHistoryHasAt(h, i int, p common.BLSPubkey) bool {
	for o, s := range w.m.Seqs {
		if o != h && w.m.Info[o].Root == w.m.Info[h].Root && i < len(s) && alphabet[s[i]] == p {
			return true
		}
	}
	return false
}

// doAdd performs AddValidator(index, key) on handle h and compares with the model.
// Returns the handle id the caller holds afterwards.
func (w *world) doAdd(h int, index uint64, key int) (int, *report.Failure) {
	if !w.m.addAllowed(h, index, key) {
		return h, report.Failf("harness/precondition", "case adds key %s at index %d of handle#%d%s where it is already present earlier (callers top up instead)", letter(key), index, h, seqString(w.m.Seqs[h]))
	}
	before := seqString(w.m.Seqs[h])
	ik, kk := w.m.classifyAdd(h, index, key)
	call := func() string {
		return fmt.Sprintf("handle#%d%s.AddValidator(%d, %s) [index %s, key %s]", h, before, index, letter(key), ik, kk)
	}
	pc := w.impl[h]
	var got *common.PubkeyCache
	var err error
	if f := guard("AddValidator", func() string { return call() + " " + w.ctx() }, func() {
		got, err = pc.AddValidator(common.ValidatorIndex(index), alphabet[key])
	}); f != nil {
		if strings.HasSuffix(f.Sig, "/blocked") {
			w.quarantine()
		}
		return h, f
	}
	info := w.m.Info[h]
	kind, out := w.m.add(h, index, key)
	if w.o != nil {
		w.o.results[kind]++
		w.o.hits["add:"+ik+"/"+kk] = true
		if info.Parent >= 0 && kk == "fresh-but-on-other-history" && kind != resError {
			w.o.sibAdd = true
		}
	}
	switch kind {
	case resError:
		if err == nil {
			return h, report.Failf("AddValidator/no-error-beyond-next", "%s returned no error although index %d is beyond the next index; %s", call(), index, w.ctx())
		}
		return h, nil
	case resAppend, resNoop:
		if err != nil {
			return h, report.Failf("AddValidator/error-on-"+kind, "%s must be %s, returned error: %v; %s", call(), kind, err, w.ctx())
		}
		if got != pc {
			return h, report.Failf("AddValidator/"+kind+"-returned-other-handle", "%s must return the same cache (%s), returned a different one; %s", call(), kind, w.ctx())
		}
		return h, nil
	}
	// conflict: a new handle, the old one untouched (the sweep that follows checks "untouched")
	if err != nil {
		return h, report.Failf("AddValidator/error-on-conflict", "%s is a conflicting pair and must fork out, returned error: %v; %s", call(), err, w.ctx())
	}
	if got == nil {
		return h, report.Failf("AddValidator/nil-handle", "%s returned (nil, nil); %s", call(), w.ctx())
	}
	if got == pc {
		return h, report.Failf("AddValidator/conflict-returned-same-handle", "%s is a conflicting pair and must return a new cache, returned the same one; %s", call(), w.ctx())
	}
	for o, p := range w.impl {
		if p == got {
			return h, report.Failf("AddValidator/conflict-returned-live-handle", "%s returned the existing handle#%d instead of a new cache; %s", call(), o, w.ctx())
		}
	}
	w.impl = append(w.impl, got)
	if w.o != nil {
		where := "root-handle"
		if info.Parent >= 0 {
			w.o.forkOfFork = true
			switch {
			case int(index) < info.ForkAt:
				where = "forked-handle/inherited-part"
			case int(index) == info.ForkAt:
				where = "forked-handle/own-fork-point"
			default:
				where = "forked-handle/own-part"
			}
		}
		w.o.conflicts = append(w.o.conflicts, kk+"@"+where)
		if d := w.m.Info[out].Depth; d > w.o.maxDepth {
			w.o.maxDepth = d
		}
	}
	return out, nil
}

func exec(c *Case, o *obs) (f *report.Failure) {
	defer func() {
		if p := recover(); p != nil {
			f = report.Failf("harness/panic", "harness panicked outside a guarded call: %v", p)
		}
	}()
	w := &world{o: o}
	for step, a := range c.Actions {
		w.step = step
		switch a.Op {
		case "new":
			seen := map[int]bool{}
			for _, k := range a.Keys {
				if k < 0 || k >= alphabetSize || seen[k] {
					return report.Failf("harness/bad-case", "step %d: registry keys must be distinct alphabet letters", step)
				}
				seen[k] = true
			}
			var pc *common.PubkeyCache
			var err error
			if a.Empty {
				if len(a.Keys) != 0 {
					return report.Failf("harness/bad-case", "step %d: empty cache with keys", step)
				}
				w.history = append(w.history, fmt.Sprintf("#%d=Empty()", len(w.impl)))
				if f := guard("EmptyPubkeyCache", func() string { return "EmptyPubkeyCache()" }, func() { pc = common.EmptyPubkeyCache() }); f != nil {
					return f
				}
			} else {
				w.history = append(w.history, fmt.Sprintf("#%d=New(%s)", len(w.impl), seqString(a.Keys)))
				reg, rerr := registryOf(a.Keys)
				if rerr != nil {
					return report.Failf("harness/registry", "cannot build registry: %v", rerr)
				}
				if f := guard("NewPubkeyCache", func() string { return "NewPubkeyCache(" + seqString(a.Keys) + ")" }, func() { pc, err = common.NewPubkeyCache(reg) }); f != nil {
					return f
				}
			}
			if err != nil || pc == nil {
				return report.Failf("NewPubkeyCache/error", "NewPubkeyCache(%s) = %v, %v", seqString(a.Keys), pc, err)
			}
			w.m.newHandle(a.Keys)
			w.impl = append(w.impl, pc)
			if o != nil {
				if a.Empty {
					o.hits["new:empty"] = true
				} else {
					o.hits[fmt.Sprintf("new:registry/len=%d", len(a.Keys))] = true
				}
			}
		case "share":
			if a.H < 0 || a.H >= len(w.impl) || a.Index > uint64(len(w.m.Seqs[a.H])) {
				return report.Failf("harness/bad-case", "step %d: share of unknown handle or beyond its tip", step)
			}
			w.m.Chains = append(w.m.Chains, chain{H: a.H, N: int(a.Index)})
			w.history = append(w.history, fmt.Sprintf("chain%d=share(#%d,count=%d)", len(w.m.Chains)-1, a.H, a.Index))
			if o != nil {
				if int(a.Index) < len(w.m.Seqs[a.H]) {
					o.hits["share:behind-tip"] = true
				} else {
					o.hits["share:at-tip"] = true
				}
			}
		case "deposit":
			if a.Chain < 0 || a.Chain >= len(w.m.Chains) || a.Key < 0 || a.Key >= alphabetSize {
				return report.Failf("harness/bad-case", "step %d: deposit on unknown chain or key", step)
			}
			ch := &w.m.Chains[a.Chain]
			h, n := ch.H, ch.N
			w.history = append(w.history, fmt.Sprintf("deposit(chain%d{#%d,count=%d},%s)", a.Chain, h, n, letter(a.Key)))
			// the callers' protocol (phase0/deposit.go): look the key up, believe it only below the state's validator count
			var vi common.ValidatorIndex
			var ok bool
			if f := guard("ValidatorIndex", func() string {
				return fmt.Sprintf("handle#%d.ValidatorIndex(%s) %s", h, letter(a.Key), w.ctx())
			}, func() { vi, ok = w.impl[h].ValidatorIndex(alphabet[a.Key]) }); f != nil {
				return f
			}
			exists := ok && uint64(vi) < uint64(n)
			wantAt, wantExists := -1, false
			for i, k := range w.m.Seqs[h][:n] {
				if k == a.Key {
					wantAt, wantExists = i, true
				}
			}
			switch {
			case exists && !wantExists:
				return report.Failf("Deposit/new-key-credited-to-existing-validator", "deposit of %s on a chain whose registry is %s: cache lookup says validator %d (count %d), so the deposit tops up the wrong validator; %s", letter(a.Key), seqString(w.m.Seqs[h][:n]), vi, n, w.ctx())
			case !exists && wantExists:
				return report.Failf("Deposit/known-key-treated-as-new", "deposit of %s on a chain whose registry is %s: cache lookup = (%d,%v) with count %d, so a second validator would be created; %s", letter(a.Key), seqString(w.m.Seqs[h][:n]), vi, ok, n, w.ctx())
			case exists && int(vi) != wantAt:
				return report.Failf("Deposit/credited-to-wrong-validator", "deposit of %s on a chain whose registry is %s: cache says validator %d, registry says %d; %s", letter(a.Key), seqString(w.m.Seqs[h][:n]), vi, wantAt, w.ctx())
			}
			if wantExists {
				if o != nil {
					o.topups++
				}
				break
			}
			behind := n < len(w.m.Seqs[h])
			out, f := w.doAdd(h, uint64(n), a.Key)
			if f != nil {
				return f
			}
			if o != nil && behind && out != h {
				o.behindFork = true
			}
			ch.H, ch.N = out, n+1
		case "add":
			if a.H < 0 || a.H >= len(w.impl) || a.Key < 0 || a.Key >= alphabetSize {
				return report.Failf("harness/bad-case", "step %d: add on unknown handle or key", step)
			}
			w.history = append(w.history, fmt.Sprintf("#%d.add(%d,%s)", a.H, a.Index, letter(a.Key)))
			if _, f := w.doAdd(a.H, a.Index, a.Key); f != nil {
				return f
			}
		case "lookup":
			// out-of-domain lookups the sweep does not make: far indices, keys outside the alphabet
			if a.H < 0 || a.H >= len(w.impl) {
				return report.Failf("harness/bad-case", "step %d: lookup on unknown handle", step)
			}
			w.history = append(w.history, fmt.Sprintf("#%d.lookup(%d,%s)", a.H, a.Index, letter(a.Key)))
			pc := w.impl[a.H]
			var cp *common.CachedPubkey
			var ok bool
			if f := guard("Pubkey", func() string { return fmt.Sprintf("handle#%d.Pubkey(%d) %s", a.H, a.Index, w.ctx()) }, func() {
				cp, ok = pc.Pubkey(common.ValidatorIndex(a.Index))
			}); f != nil {
				return f
			}
			wantKey, wantOk := w.m.pubkeyAt(a.H, a.Index)
			if ok != wantOk || (ok && (cp == nil || cp.Compressed != alphabet[wantKey])) {
				return report.Failf("Pubkey/wrong-far-lookup", "handle#%d%s.Pubkey(%d) = (%v,%v), history says found=%v; %s", a.H, seqString(w.m.Seqs[a.H]), a.Index, cp, ok, wantOk, w.ctx())
			}
			if a.Key < 0 {
				fk := foreignKey(a.Index)
				var vi common.ValidatorIndex
				if f := guard("ValidatorIndex", func() string { return fmt.Sprintf("handle#%d.ValidatorIndex(foreign) %s", a.H, w.ctx()) }, func() {
					vi, ok = pc.ValidatorIndex(fk)
				}); f != nil {
					return f
				}
				if ok {
					return report.Failf("ValidatorIndex/phantom-entry", "handle#%d%s.ValidatorIndex(key never added) = %d; %s", a.H, seqString(w.m.Seqs[a.H]), vi, w.ctx())
				}
			}
			if o != nil {
				o.hits["lookup:out-of-domain"] = true
			}
		default:
			return report.Failf("harness/bad-case", "step %d: unknown op %q", step, a.Op)
		}
		if f := w.sweep(); f != nil {
			return f
		}
	}
	// what Pubkey(i) hands out must decompress to the key it names (one handle, at most 2 entries)
	if n := len(w.impl); n > 0 {
		h := n - 1
		for i := 0; i < len(w.m.Seqs[h]) && i < 2; i++ {
			idx := len(w.m.Seqs[h]) - 1 - i
			var ser [48]byte
			var derr error
			if f := guard("CachedPubkey.Pubkey", func() string { return fmt.Sprintf("handle#%d.Pubkey(%d).Pubkey()", h, idx) }, func() {
				cp, ok := w.impl[h].Pubkey(common.ValidatorIndex(idx))
				if !ok || cp == nil {
					derr = fmt.Errorf("entry vanished")
					return
				}
				p, err := cp.Pubkey()
				if err != nil {
					derr = err
					return
				}
				ser = p.Serialize()
			}); f != nil {
				return f
			}
			if derr != nil || common.BLSPubkey(ser) != alphabet[w.m.Seqs[h][idx]] {
				return report.Failf("CachedPubkey/decompress-mismatch", "handle#%d.Pubkey(%d).Pubkey() = %x, %v; want the point of key %s", h, idx, ser[:6], derr, letter(w.m.Seqs[h][idx]))
			}
		}
	}
	if o != nil {
		parts := make([]string, len(w.m.Seqs))
		for h := range w.m.Seqs {
			parts[h] = fmt.Sprintf("%d@%d+%d", w.m.Info[h].Parent, w.m.Info[h].ForkAt, len(w.m.Seqs[h]))
		}
		o.shape = strings.Join(parts, ",")
	}
	return nil
}

// run is the pure replay entry point. A watchdog verdict is believed only if it repeats.
func run(c *Case) *report.Failure { return confirm(c, exec(c, nil)) }

func confirm(c *Case, f *report.Failure) *report.Failure {
	if f != nil && strings.HasSuffix(f.Sig, "/blocked") {
		if f2 := exec(c, nil); f2 == nil || f2.Sig != f.Sig {
			return report.Failf("harness/unconfirmed-watchdog", "first run: %s; second run: %v", f.String(), f2)
		}
		watchdogNs.Store(int64(2 * time.Second))
		flag.Set("rapid.shrinktime", "15s") // read by rapid when shrinking starts, i.e. after this confirmation
	}
	return f
}

// ---------------------------------------------------------------- generator

// The random generator draws a list of state-independent *intents* (so rapid can delete and
// minimise elements freely) and resolves them against the generator's own model into concrete
// actions that respect the callers' precondition. Infeasible intents fall back or are dropped.

// freshKeys: letters not on handle h; siblings: those of them present on another history of its tree.
func freshKeys(m *model, h int) (fresh, sibling []int) {
	for k := 0; k < alphabetSize; k++ {
		if _, ok := m.indexOf(h, k); !ok {
			fresh = append(fresh, k)
			if m.onOtherHistory(h, k) {
				sibling = append(sibling, k)
			}
		}
	}
	return
}

// pickFresh: a key new to handle h; two times out of three one that lives on another history.
func pickFresh(m *model, h int, c, d int) (int, bool) {
	fresh, sib := freshKeys(m, h)
	if len(fresh) == 0 {
		return 0, false
	}
	if len(sib) > 0 && d%3 > 0 {
		return sib[c%len(sib)], true
	}
	return fresh[c%len(fresh)], true
}

func distinctKeys(n int, picks []int) []int {
	pool := []int{0, 1, 2, 3, 4, 5, 6, 7}
	out := make([]int, 0, n)
	for i := 0; i < n && i < len(picks); i++ {
		j := picks[i] % len(pool)
		out = append(out, pool[j])
		pool = append(pool[:j], pool[j+1:]...)
	}
	return out
}

func drawDistinct(t *rapid.T, n int, label string) []int {
	return distinctKeys(n, rapid.SliceOfN(rapid.IntRange(0, 7), n, n).Draw(t, label))
}

var farOffsets = []uint64{1 << 20, 1 << 32, 1<<63 - 1}

// resolveAdd turns an (index kind / key kind) request plus four small numbers into a concrete add
// that respects the callers' precondition. ok=false if the kind is infeasible on this handle.
func resolveAdd(m *model, h int, kind string, a, b, c, d int) (Action, bool) {
	seq := m.Seqs[h]
	n := len(seq)
	act := Action{Op: "add", H: h, Kind: kind}
	switch kind {
	case "next/fresh":
		k, ok := pickFresh(m, h, c, d)
		if !ok {
			return act, false
		}
		act.Index, act.Key = uint64(n), k
	case "known/same":
		if n == 0 {
			return act, false
		}
		i := a % n
		act.Index, act.Key = uint64(i), seq[i]
	case "known/fresh":
		k, ok := pickFresh(m, h, c, d)
		if n == 0 || !ok {
			return act, false
		}
		act.Index, act.Key = uint64(a%n), k
	case "known/later":
		if n < 2 {
			return act, false
		}
		i := a % (n - 1)
		j := i + 1 + b%(n-1-i)
		act.Index, act.Key = uint64(i), seq[j]
	case "beyond/fresh":
		k, ok := pickFresh(m, h, c, d)
		if !ok {
			return act, false
		}
		off := uint64(1 + a%3)
		if b%6 == 5 {
			off = farOffsets[a%len(farOffsets)]
		}
		if b%6 == 4 {
			off = ^uint64(0) - uint64(n) // index = 2^64-1
		}
		act.Index, act.Key = uint64(n)+off, k
	case "known/earlier", "next/earlier", "beyond/earlier":
		// a key that already sits at an earlier index of this history
		if n < 2 {
			return act, false
		}
		e := a % (n - 1) // position of the key, at least one index before the end
		var idx uint64
		switch kind {
		case "known/earlier":
			idx = uint64(e + 1 + b%(n-1-e))
		case "next/earlier":
			idx = uint64(n)
		default:
			idx = uint64(n) + uint64(1+b%3)
		}
		act.Index, act.Key = idx, seq[e]
	default:
		return act, false
	}
	return act, true
}

func drawAdd(t *rapid.T, m *model, h int, kind string) (Action, bool) {
	v := rapid.SliceOfN(rapid.IntRange(0, 7), 4, 4).Draw(t, "add_"+kind)
	return resolveAdd(m, h, kind, v[0], v[1], v[2], v[3])
}

func drawFresh(t *rapid.T, m *model, h int, label string) (int, bool) {
	v := rapid.SliceOfN(rapid.IntRange(0, 7), 2, 2).Draw(t, label)
	return pickFresh(m, h, v[0], v[1])
}

var addKinds = []string{"known/same", "next/fresh", "next/fresh", "known/fresh", "known/fresh", "known/later", "known/later", "beyond/fresh", "known/earlier", "next/earlier", "beyond/earlier"}

// apply advances the generator's model exactly as exec will (model side only).
func apply(m *model, a Action) {
	switch a.Op {
	case "new":
		m.newHandle(a.Keys)
	case "share":
		m.Chains = append(m.Chains, chain{H: a.H, N: int(a.Index)})
	case "deposit":
		ch := &m.Chains[a.Chain]
		for _, k := range m.Seqs[ch.H][:ch.N] {
			if k == a.Key {
				return
			}
		}
		_, out := m.add(ch.H, uint64(ch.N), a.Key)
		ch.H, ch.N = out, ch.N+1
	case "add":
		m.add(a.H, a.Index, a.Key)
	}
}

type intent struct {
	Op, H, Kind int
	V           []int // small numbers 0..7 consumed by the resolver
}

var intentGen = rapid.Custom(func(t *rapid.T) intent {
	return intent{
		Op:   rapid.IntRange(0, 19).Draw(t, "op"),
		H:    rapid.IntRange(0, 15).Draw(t, "h"),
		Kind: rapid.IntRange(0, len(addKinds)-1).Draw(t, "kind"),
		V:    rapid.SliceOfN(rapid.IntRange(0, 7), 7, 7).Draw(t, "v"),
	}
})

func resolveNew(in intent) Action {
	if in.V[6] == 7 {
		return Action{Op: "new", Empty: true}
	}
	return Action{Op: "new", Keys: distinctKeys(in.Kind%7, in.V)}
}

func pickHandle(m *model, sel int) int {
	n := len(m.Seqs)
	if sel >= 11 { // a third of the time: the most recent handle
		return n - 1
	}
	return sel % n
}

func genRandom(t *rapid.T) *Case {
	c := &Case{Note: "random"}
	m := &model{}
	push := func(a Action) { c.Actions = append(c.Actions, a); apply(m, a) }
	push(resolveNew(intentGen.Draw(t, "first")))
	for _, in := range rapid.SliceOfN(intentGen, 1, 39).Draw(t, "intents") {
		h := pickHandle(m, in.H)
		switch {
		case in.Op == 19 && len(m.Seqs) < 12:
			push(resolveNew(in))
		case in.Op >= 17:
			push(Action{Op: "share", H: h, Index: uint64(in.V[0] % (len(m.Seqs[h]) + 1))})
		case in.Op >= 11 && len(m.Chains) > 0:
			push(Action{Op: "deposit", Chain: in.H % len(m.Chains), Key: in.V[0]})
		case in.Op == 10:
			far := []uint64{uint64(len(m.Seqs[h])) + 2, 1000, 1 << 32, 1 << 63, ^uint64(0)}
			push(Action{Op: "lookup", H: h, Key: -1, Index: far[in.V[0]%len(far)]})
		default:
			a, ok := resolveAdd(m, h, addKinds[in.Kind], in.V[0], in.V[1], in.V[2], in.V[3])
			if !ok {
				a, ok = resolveAdd(m, h, "known/same", in.V[0], 0, 0, 0)
			}
			if !ok {
				a, ok = resolveAdd(m, h, "next/fresh", 0, 0, in.V[2], in.V[3])
			}
			if ok {
				push(a)
			}
		}
	}
	return c
}

// class tour: one directed template per mandatory class, free details still drawn.
var tours = []string{"moved-earlier", "fork-of-fork", "sibling-only-lookup", "behind-chain-forks", "sibling-key-appended", "conflict-in-inherited-part"}

func genTour(t *rapid.T, which string) *Case {
	c := &Case{Note: "tour:" + which}
	m := &model{}
	push := func(a Action) { c.Actions = append(c.Actions, a); apply(m, a) }
	must := func(a Action, ok bool) {
		if !ok {
			panic("tour template infeasible: " + which)
		}
		push(a)
	}
	n := rapid.IntRange(3, 6).Draw(t, "n")
	push(Action{Op: "new", Keys: drawDistinct(t, n, "k")})
	switch which {
	case "moved-earlier":
		must(drawAdd(t, m, 0, "known/later"))
	case "fork-of-fork":
		must(drawAdd(t, m, 0, rapid.SampledFrom([]string{"known/fresh", "known/later"}).Draw(t, "k1")))
		if len(m.Seqs[1]) < 2 || rapid.Bool().Draw(t, "grow") {
			must(drawAdd(t, m, 1, "next/fresh"))
		}
		must(drawAdd(t, m, 1, rapid.SampledFrom([]string{"known/fresh", "known/later"}).Draw(t, "k2")))
	case "sibling-only-lookup":
		// conflict strictly before the tip, so the old history keeps keys the new one lacks
		i := rapid.IntRange(0, n-2).Draw(t, "i")
		k, _ := drawFresh(t, m, 0, "f")
		push(Action{Op: "add", H: 0, Index: uint64(i), Key: k, Kind: "known/fresh"})
	case "behind-chain-forks":
		cnt := rapid.IntRange(0, n-1).Draw(t, "count")
		push(Action{Op: "share", H: 0, Index: uint64(n)})
		push(Action{Op: "share", H: 0, Index: uint64(cnt)})
		// the chain behind deposits a key the one ahead has later (or never): deposit-order fork
		var k int
		if cnt < n-1 && rapid.Bool().Draw(t, "later") {
			k = m.Seqs[0][rapid.IntRange(cnt+1, n-1).Draw(t, "j")]
		} else {
			k, _ = drawFresh(t, m, 0, "f")
		}
		push(Action{Op: "deposit", Chain: 1, Key: k})
		push(Action{Op: "deposit", Chain: 1, Key: rapid.IntRange(0, alphabetSize-1).Draw(t, "k2")})
		push(Action{Op: "deposit", Chain: 0, Key: rapid.IntRange(0, alphabetSize-1).Draw(t, "k3")})
	case "sibling-key-appended":
		i := rapid.IntRange(0, n-2).Draw(t, "i")
		k, _ := drawFresh(t, m, 0, "f")
		push(Action{Op: "add", H: 0, Index: uint64(i), Key: k, Kind: "known/fresh"})
		// a key that lives only on the old history, appended to the new one
		sk := m.Seqs[0][rapid.IntRange(i, n-1).Draw(t, "sk")]
		push(Action{Op: "add", H: 1, Index: uint64(len(m.Seqs[1])), Key: sk, Kind: "next/fresh"})
	case "conflict-in-inherited-part":
		i := rapid.IntRange(1, n-1).Draw(t, "i")
		k, _ := drawFresh(t, m, 0, "f")
		push(Action{Op: "add", H: 0, Index: uint64(i), Key: k, Kind: "known/fresh"})
		j := rapid.IntRange(0, i-1).Draw(t, "j")
		k2, _ := drawFresh(t, m, 1, "f2")
		push(Action{Op: "add", H: 1, Index: uint64(j), Key: k2, Kind: "known/fresh"})
	}
	// a free tail
	tail := rapid.IntRange(0, 4).Draw(t, "tail")
	for s := 0; s < tail; s++ {
		h := pickHandle(m, rapid.IntRange(0, 15).Draw(t, "t_h"))
		kind := addKinds[rapid.IntRange(0, len(addKinds)-1).Draw(t, "t_kind")]
		if a, ok := drawAdd(t, m, h, kind); ok {
			push(a)
		}
	}
	return c
}

// ---------------------------------------------------------------- test entry

const (
	mMoved    = "conflict:key-moved-earlier"
	mForkFork = "fork-of-a-fork"
	mSibLook  = "lookup:forked-handle/sibling-only-key"
	mBehind   = "shared-handle:chain-behind-forks-out"
	mInherit  = "conflict:in-inherited-part-of-forked-handle"
	mSibAdd   = "add:key-of-other-history-onto-forked-handle"
	mBeyond   = "add:beyond-next-is-error"
	mNoop     = "add:known-pair-is-noop"
)

// inflight also covers replay mode, where report.Inflight is a no-op (a regress case that kills the
// process again must still be attributed by the driver).
func inflight(r *report.Run, c *Case) {
	if r.Replay == "" {
		r.Inflight(c)
		return
	}
	b, _ := json.Marshal(map[string]any{"property": r.S.Property, "case": c, "sig": "process-death", "msg": "in flight when the process died (replay of " + r.Replay + ")"})
	dir := filepath.Join(r.Root, "replays", "new")
	os.MkdirAll(dir, 0o755)
	os.WriteFile(filepath.Join(dir, fmt.Sprintf("%s-inflight-%d.json", r.S.Property, r.S.Shard)), b, 0o644)
}

func TestCheck(t *testing.T) {
	debug.SetMaxStack(64 << 20) // runaway recursion dies fast instead of eating the machine
	r := report.Begin("C16")
	defer r.Finish()
	r.Rule("histories of <=40 actions over a forest of cache handles (new from registry/empty; AddValidator with index next/known/beyond x key fresh/fresh-but-on-another-history/same/at-a-later-index; chains sharing a handle one behind the other running the deposit protocol; far lookups) plus pairs of real beacon states sharing one handle and processing deposits through phase0.ProcessDeposit (different keys / same history one behind / same keys reordered); after every action every live handle is swept over indices 0..max+1 and all 8 keys. non-trivial = >=1 fork-out and >=1 lookup on a forked handle of a key that exists only on another history of its tree; distinct key = (forest shape: parent@fork-index+length per handle, ordered list of conflict kinds)")
	r.Assume("the model (pkmodel.go): a handle is a mutable, shared sequence of distinct keys; add = append in place | no-op | new handle h[:i]+[k] | error beyond next",
		"a key already present at an EARLIER index of the same history (real callers top up instead) may be passed to AddValidator: the only outcome consistent with handles being sequences of distinct keys is an error that changes nothing",
		"registries have distinct pubkeys (state invariant)",
		"pointer identity decides same handle / new handle, as the doc comment of AddValidator promises",
		"single goroutine per case: concurrent use of a shared handle is C17's subject",
		"alphabet = compressed pubkeys of secret keys 1..8; the cache never decompresses on the checked paths")
	replay := func(raw json.RawMessage) *report.Failure {
		var probe struct {
			Conflict bool `json:"conflict"`
		}
		json.Unmarshal(raw, &probe)
		if probe.Conflict {
			var cc sim.ConflictCase
			if err := json.Unmarshal(raw, &cc); err != nil {
				return report.Failf("harness", "bad case: %v", err)
			}
			return runDeposits(r, &cc)
		}
		var c Case
		if err := json.Unmarshal(raw, &c); err != nil {
			return report.Failf("harness", "bad case: %v", err)
		}
		inflight(r, &c)
		f := run(&c)
		r.ClearInflight()
		return f
	}
	r.Regress(replay)
	if r.Replay != "" {
		return
	}
	r.Mandatory(mMoved, mForkFork, mSibLook, mBehind, mInherit, mSibAdd, mBeyond, mNoop, mDeposits)

	execute := func(c *Case) *report.Failure {
		r.Inflight(c)
		o := newObs()
		f := confirm(c, exec(c, o))
		r.ClearInflight()
		r.Eval(1)
		account(r, c, o)
		return f
	}
	only := os.Getenv("C16_ONLY") // developer aid: run a single search, e.g. tour/sibling-only-lookup or random
	sub := 0
	for _, which := range tours {
		which := which
		if only != "" && only != "tour/"+which {
			sub++
			continue
		}
		ok := r.Search(t, "tour/"+which, sub, r.N(800, 8000), func(rt *rapid.T) (any, *report.Failure) {
			c := genTour(rt, which)
			return c, execute(c)
		})
		sub++
		if !ok {
			return
		}
	}
	// The cache as real chains use it: two beacon states (CopyState + EpochsContext.Clone) share one handle
	// and process deposits through phase0.ProcessDeposit — different new keys at the same indices, the same
	// history one behind the other, or the same keys in another order. After every block each chain's
	// handle must answer exactly along its own state's registry.
	if only == "" || only == "process-deposit" {
		if !r.Search(t, "process-deposit/two-chains-one-cache", sub+1, r.N(160, 1600), func(rt *rapid.T) (any, *report.Failure) {
			c := sim.GenConflictCase(rt)
			r.Inflight(c)
			f := runDeposits(r, c)
			r.ClearInflight()
			return c, f
		}) {
			return
		}
	}
	if only != "" && only != "random" {
		return
	}
	r.Search(t, "random", sub, r.N(160000, 600000), func(rt *rapid.T) (any, *report.Failure) {
		c := genRandom(rt)
		return c, execute(c)
	})
}

const mDeposits = "process-deposit:two-chains-one-cache"

func runDeposits(r *report.Run, c *sim.ConflictCase) *report.Failure {
	res := sim.RunConflict(c)
	r.Eval(int64(res.Evals))
	switch {
	case res.Sig == "conflict/diverge" || res.Sig == "conflict/panic" || res.Sig == "conflict/blocked" || res.Sig == "epc-stale:pubkey-cache":
		return report.Failf("process-deposit/"+res.Sig, "%s", res.Msg)
	case res.Sig != "":
		r.Class("process-deposit:other-property(" + res.Sig + ")") // C08's subject
		return nil
	}
	if res.NonTrivial {
		r.Hit(mDeposits)
		r.Class("process-deposit:" + res.Class)
		r.NonTrivial(fmt.Sprintf("process-deposit|%s|%d|%d|%d", res.Class, c.NewM, c.NewS, c.MaxDep))
		r.Sample("process-deposit/"+res.Class, func() any { return c })
	}
	return nil
}

func account(r *report.Run, c *Case, o *obs) {
	forks := o.results[resFork]
	for _, k := range o.conflicts {
		r.Class("conflict:" + k)
		if strings.HasPrefix(k, "at-later-index@") {
			r.Hit(mMoved)
		}
		if strings.HasSuffix(k, "inherited-part") {
			r.Hit(mInherit)
		}
	}
	if o.forkOfFork {
		r.Hit(mForkFork)
	}
	if o.siblingLooks > 0 {
		r.Hit(mSibLook)
	}
	if o.behindFork {
		r.Hit(mBehind)
	}
	if o.results[resError] > 0 {
		r.Hit(mBeyond)
	}
	if o.results[resNoop] > 0 {
		r.Hit(mNoop)
	}
	hits := make([]string, 0, len(o.hits))
	for k := range o.hits {
		hits = append(hits, k)
	}
	sort.Strings(hits)
	for _, k := range hits {
		r.Class(k)
	}
	if o.sibAdd {
		r.Hit(mSibAdd)
	}
	for k, v := range o.results {
		r.ClassN("result:"+k, int64(v))
	}
	if o.topups > 0 {
		r.Class("deposit:top-up")
	}
	switch {
	case forks == 0:
		r.Class("forks=0")
	case forks == 1:
		r.Class("forks=1")
	case forks <= 3:
		r.Class("forks=2..3")
	default:
		r.Class("forks>=4")
	}
	r.Class(fmt.Sprintf("fork-depth=%d", o.maxDepth))
	if forks >= 1 && o.siblingLooks >= 1 {
		r.NonTrivial(o.shape + "|" + strings.Join(o.conflicts, ","))
		cl := "depth1"
		if o.maxDepth >= 2 {
			cl = "depth>=2"
		}
		if o.behindFork {
			cl += "/shared"
		}
		if strings.HasPrefix(c.Note, "tour:") {
			cl = c.Note
		} else {
			cl = "random/" + cl
		}
		r.Sample(cl, func() any { return c })
	} else {
		r.Class("trivial")
	}
}
