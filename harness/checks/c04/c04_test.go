// C04 — SSZ encoding of every type round-trips and agrees with its declared lengths.
//
// Oracle: refssz (independent encoder / strict decoder / schema table). Values cross into the
// library AS BYTES: B = refssz.Serialize(V), V drawn with refssz.Random under mainnet, minimal and
// two tiny custom presets. Per (Go type, preset, V):
//
//	Deserialize(B) succeeds; Serialize() == B; ByteLength() == len(B); FixedLength() == len(B) for
//	fixed-size schemas, 0 for variable-size ones; json.Marshal -> Unmarshal -> Serialize == B, same
//	for YAML; json.Marshal(struct) equals refssz.ToJSON(V) BY FIELD NAME (breaks symmetric swaps);
//	every input derived from B in the three refusal classes of the property (truncation at every
//	field boundary ±1, one list/bitlist/bytelist one over its limit, corrupted offsets) is refused
//	whenever the strict reference decoder refuses it (and decoded identically when it happens to
//	be a valid encoding of another value); nothing panics.
//
// Differential body (FuzzDecode / "x" searches): for mutated encodings and arbitrary bytes the
// library decodes iff the reference decoder does (modulo the documented leniencies outside the
// three classes) and re-encodes to the input.
//
// Decisions on decoder leniency (property: "input that is truncated, exceeds a list or bitlist
// limit, or carries inconsistent offsets is refused"), all listed in the evidence:
//
//	L1 trailing bytes after a fixed-size object decoded from a longer top-level scope are ignored
//	   by the library (nested fixed-size fields get exact scopes): outside the three classes, tolerated.
//	L2 padding bits of JustificationBits / SyncnetBits (raw-byte bitvectors) may be set: outside
//	   the three classes, tolerated. (Bitvectors decoded through dr.BitVector do refuse them.)
//	Not tolerated, repaired in /repo: a full bitlist refused when limit%8==0 (C04-F03); a list of
//	variable-size containers with an empty-span element accepted (C04-F06).
//
// JSON: a nil slice marshals as null where the spec form is []; it round-trips, so the by-name
// comparison treats null as the empty list. capella.HistoricalSummary has no json tags (keys are
// the Go field names); compared through an explicit key map.
//
// Sensitivity (tools/trymut.py, quick tier, all CAUGHT):
//
//	M1 common/header.go      BeaconBlockHeader.Serialize only: ParentRoot <-> StateRoot swapped
//	M2 phase0/deposit.go     Deposits.Deserialize limit MAX_DEPOSITS -> MAX_ATTESTATIONS
//	M3 phase0/pending_attestation.go  PendingAttestation.ByteLength without ProposerIndex
//	M4 phase0/indexed.go     IndexedAttestation.FixedLength 0 -> 228 (variable-size type)
//	M5 phase0/voluntary_exit.go  json tag validator_index renamed
//	M6 altair/sync_message.go    json tag validator_index dropped
//	N9 common/eth1.go        Eth1Data: DepositRoot <-> BlockHash swapped in BOTH Serialize and
//	                         Deserialize (survives every round trip; caught by JSON-by-name, and by C05)
package c04

import (
	"bytes"
	"encoding/hex"
	"encoding/json"
	"fmt"
	"math/big"
	"os"
	"path/filepath"
	"reflect"
	"sort"
	"strings"
	"testing"

	"gopkg.in/yaml.v3"
	"pgregory.net/rapid"

	"zrntverif/checks/c04/reg"
	"zrntverif/refssz"
	"zrntverif/report"
)

type Case struct {
	Type   string `json:"type"`   // Go type, "pkg.Type"
	Preset string `json:"preset"` // mainnet | minimal | custom-a | custom-b
	Mode   string `json:"mode"`   // value | bytes
	Shape  string `json:"shape,omitempty"`
	Hex    string `json:"hex"`            // value: the valid encoding B; bytes: the input X
	Note   string `json:"note,omitempty"` // bytes: how X was derived
	// value mode: a valid encoding (of the same Go type, under DonorPreset) that is decoded into the
	// destination object BEFORE B is decoded into the same object ("recycled" destination)
	Donor       string `json:"donor,omitempty"`
	DonorPreset string `json:"donor_preset,omitempty"`
	b           []byte
}

func (c *Case) bytes() []byte {
	if c.b == nil {
		c.b, _ = hex.DecodeString(c.Hex)
		if c.b == nil {
			c.b = []byte{}
		}
	}
	return c.b
}

var bindings = map[string]reg.Binding{}

func init() {
	for _, b := range reg.Bindings() {
		bindings[b.Go] = b
	}
}

// ---------------------------------------------------------------- documented exemptions

// Types whose JSON form is not "object keyed by the spec's snake_case names / list / scalar" and
// are therefore compared by round-trip only (listed in the evidence under json_by_name_exempt).
var jsonByNameExempt = map[string]string{}

// Leniencies of the library's decoder that lie outside the three refusal classes the property
// names; the differential oracle tolerates exactly these (see evidence "leniencies").
var lenient = refssz.Lenient{BitvectorPadding: true}

// Containers whose Go struct has no json tags: the library's JSON keys are the Go field names.
// The by-name comparison maps them explicitly, so field identity is still checked.
var jsonUntagged = map[string]map[string]string{
	"HistoricalSummary": {"block_summary_root": "BlockSummaryRoot", "state_summary_root": "StateSummaryRoot"},
}

// ---------------------------------------------------------------- library calls under recover

func guard(what string, fn func() error) (err error, panicked bool) {
	defer func() {
		if p := recover(); p != nil {
			err, panicked = fmt.Errorf("%s panicked: %v", what, p), true
		}
	}()
	return fn(), false
}

func newObj(c *Case, p *reg.Preset) (reg.Obj, bool) {
	mk, ok := reg.Constructors[c.Type]
	if !ok {
		return reg.Obj{}, false
	}
	return reg.Obj{Spec: p.Spec, V: mk()}, true
}

func short(b []byte) string {
	if len(b) > 96 {
		return fmt.Sprintf("%x…(%d bytes)", b[:96], len(b))
	}
	return fmt.Sprintf("%x", b)
}

// decodeLib decodes x into a fresh value; returns the object, error, panicked.
func decodeLib(c *Case, p *reg.Preset, x []byte) (reg.Obj, error, bool) {
	o, _ := newObj(c, p)
	err, pan := guard("Deserialize", func() error { return o.Deserialize(x) })
	return o, err, pan
}

func encodeLib(o reg.Obj) (out []byte, err error, pan bool) {
	err, pan = guard("Serialize", func() error {
		var e error
		out, e = o.Serialize()
		return e
	})
	return
}

// ---------------------------------------------------------------- JSON by name

func numToBig(x any) (*big.Int, bool) {
	switch n := x.(type) {
	case json.Number:
		v, ok := new(big.Int).SetString(n.String(), 10)
		return v, ok
	case string:
		v, ok := new(big.Int).SetString(n, 0)
		return v, ok
	}
	return nil, false
}

func hexNorm(s string) string { return strings.ToLower(strings.TrimPrefix(s, "0x")) }

// cmpJSON compares the library's JSON (decoded with UseNumber) with refssz.ToJSON output,
// schema-directed; tolerates number-vs-decimal-string and list-of-uint8-as-hex.
func cmpJSON(t *refssz.Type, lib, ref any, path string) string {
	switch t.Kind {
	case refssz.KUint:
		a, ok1 := numToBig(lib)
		b, ok2 := numToBig(ref)
		if !ok1 || !ok2 || a.Cmp(b) != 0 {
			return fmt.Sprintf("%s: %v != %v", path, lib, ref)
		}
	case refssz.KBool:
		if lib != ref {
			return fmt.Sprintf("%s: %v != %v", path, lib, ref)
		}
	case refssz.KBytesN, refssz.KByteList, refssz.KBitvector, refssz.KBitlist:
		ls, ok := lib.(string)
		if !ok {
			// a byte vector/list rendered as a list of numbers
			if arr, ok := lib.([]any); ok && (t.Kind == refssz.KBytesN || t.Kind == refssz.KByteList) {
				raw := make([]byte, 0, len(arr))
				for _, e := range arr {
					n, ok := numToBig(e)
					if !ok || !n.IsUint64() || n.Uint64() > 255 {
						return fmt.Sprintf("%s: not bytes: %v", path, lib)
					}
					raw = append(raw, byte(n.Uint64()))
				}
				ls = hex.EncodeToString(raw)
			} else {
				return fmt.Sprintf("%s: expected hex string, got %T", path, lib)
			}
		}
		if hexNorm(ls) != hexNorm(ref.(string)) {
			return fmt.Sprintf("%s: %v != %v", path, lib, ref)
		}
	case refssz.KVector, refssz.KList:
		rs := ref.([]any)
		if s, ok := lib.(string); ok && t.Elem.Kind == refssz.KUint && t.Elem.Bits == 8 {
			raw, err := hex.DecodeString(hexNorm(s))
			if err != nil || len(raw) != len(rs) {
				return fmt.Sprintf("%s: hex %q vs %d uint8 elements", path, s, len(rs))
			}
			for i := range raw {
				b, _ := numToBig(rs[i])
				if b.Uint64() != uint64(raw[i]) {
					return fmt.Sprintf("%s[%d]: %d != %v", path, i, raw[i], rs[i])
				}
			}
			return ""
		}
		ls, ok := lib.([]any)
		if !ok {
			if lib == nil && len(rs) == 0 && t.Kind == refssz.KList {
				return "" // a nil slice marshals as null; it round-trips to the empty list (noted in the evidence)
			}
			return fmt.Sprintf("%s: expected list, got %T", path, lib)
		}
		if len(ls) != len(rs) {
			return fmt.Sprintf("%s: length %d != %d", path, len(ls), len(rs))
		}
		for i := range ls {
			if d := cmpJSON(t.Elem, ls[i], rs[i], fmt.Sprintf("%s[%d]", path, i)); d != "" {
				return d
			}
		}
	case refssz.KContainer:
		lm, ok := lib.(map[string]any)
		if !ok {
			return fmt.Sprintf("%s: expected object, got %T", path, lib)
		}
		rm := ref.(map[string]any)
		alias := jsonUntagged[t.Name]
		for _, f := range t.Fields {
			key := f.Name
			if a, ok := alias[f.Name]; ok {
				key = a
			}
			lv, ok := lm[key]
			if !ok {
				keys := make([]string, 0, len(lm))
				for k := range lm {
					keys = append(keys, k)
				}
				sort.Strings(keys)
				return fmt.Sprintf("%s: no key %q in the library's JSON (keys %v)", path, f.Name, keys)
			}
			if d := cmpJSON(f.T, lv, rm[f.Name], path+"."+f.Name); d != "" {
				return d
			}
		}
		if len(lm) != len(t.Fields) {
			for k := range lm {
				if t.FieldIndex(k) < 0 && alias == nil {
					return fmt.Sprintf("%s: extra key %q in the library's JSON", path, k)
				}
			}
		}
	}
	return ""
}

// ---------------------------------------------------------------- the differential body

// differential judges one arbitrary input x for (type, preset): the library decodes iff the
// strict reference decoder does, and then both re-encode to x. `lenient` lists the relaxations.
// cls is a label for messages/signatures ("fuzz", "truncation", "over-limit", "offset").
func differential(c *Case, p *reg.Preset, t *refssz.Type, x []byte, cls, desc string) (*report.Failure, string) {
	sigp := c.Type + "/decode-" + cls
	rv, rerr := refssz.Deserialize(t, x)
	o, lerr, pan := decodeLib(c, p, x)
	if pan {
		return fail(c.Type+"/Deserialize/panic", "[%s] %s (%s): %v; input %s", c.Preset, cls, desc, lerr, short(x))
	}
	if rerr == nil {
		if lerr != nil {
			return fail(sigp+"/refuses-valid", "[%s] %s: valid encoding (%s) refused: %v; input %s", c.Preset, cls, desc, lerr, short(x))
		}
		out, err, pan := encodeLib(o)
		if pan || err != nil {
			return fail(c.Type+"/Serialize/error", "[%s] %s (%s): after decoding: %v (panic=%v); input %s", c.Preset, cls, desc, err, pan, short(x))
		}
		if !bytes.Equal(out, x) {
			return fail(sigp+"/reencode-differs", "[%s] %s (%s): decoded a valid encoding but re-encodes differently: %s; input %s", c.Preset, cls, desc, refssz.DiffBytes(t, x, out), short(x))
		}
		_ = rv
		return nil, "both-accept"
	}
	if lerr != nil {
		return nil, "both-refuse"
	}
	// reference refuses, library accepts: tolerated only under the documented leniencies
	if why := lenientAccepts(t, x); why != "" {
		// leniency is about what is ACCEPTED, not about what is decoded: the value must be the one the
		// tolerated reading of the input denotes (L1: the fixed-size prefix)
		if strings.HasPrefix(why, "L1") && !strings.Contains(why, "+L-") {
			out, err, pan := encodeLib(o)
			if pan || err != nil || !bytes.Equal(out, x[:t.FixedSize()]) {
				return fail(sigp+"/lenient-accept-decodes-wrong-value", "[%s] %s (%s): input longer than the fixed size is accepted (tolerated), but the decoded value does not encode to the input's first %d bytes (%v): %s; input %s", c.Preset, cls, desc, t.FixedSize(), err, refssz.DiffBytes(t, x[:t.FixedSize()], out), short(x))
			}
		}
		return nil, why
	}
	return fail(sigp+"/accepts-malformed", "[%s] %s: %s — the reference decoder refuses (%v) but the library decodes it; input %s", c.Preset, cls, desc, rerr, short(x))
}

func fail(sig, format string, args ...any) (*report.Failure, string) {
	return report.Failf(sig, format, args...), ""
}

// lenientAccepts reports (non-empty reason) whether x is acceptable under the documented
// leniencies, all of which lie outside the three refusal classes of the property.
func lenientAccepts(t *refssz.Type, x []byte) string {
	why := ""
	if t.IsFixed() && uint64(len(x)) > t.FixedSize() {
		// L1: a fixed-size object decoded from a longer top-level scope: the surplus is not read
		x = x[:t.FixedSize()]
		why = "L1-trailing-bytes-after-fixed-size-top-level"
		if _, err := refssz.Deserialize(t, x); err == nil {
			return why
		}
	}
	if lenient != (refssz.Lenient{}) {
		if _, err := refssz.DeserializeLenient(t, x, lenient); err == nil {
			return why + "+L-lenient-scalars"
		}
	}
	return ""
}

// ---------------------------------------------------------------- run

type runInfo struct {
	nMut                            map[string]int
	refused                         map[string]int
	atLimit                         int
	nonEmpty                        int
	nonDef                          bool
	fixed                           bool
	jsonNamed                       bool
	yamlOK                          bool
	jsonByValue, jsonByValueDiffers bool
	verdict                         string
	lenient                         map[string]int
	recycled                        bool
}

func run(c *Case) (*report.Failure, *runInfo) {
	info := &runInfo{nMut: map[string]int{}, refused: map[string]int{}, lenient: map[string]int{}}
	p := reg.GetPreset(c.Preset)
	bd, ok := bindings[c.Type]
	if p == nil || !ok {
		return report.Failf("harness", "unknown type/preset %q/%q", c.Type, c.Preset), info
	}
	if _, ok := reg.Constructors[c.Type]; !ok {
		return report.Failf("harness", "type %q has no constructor", c.Type), info
	}
	t, err := p.Sch.Get(bd.Decl)
	if err != nil {
		return report.Failf("harness", "schema: %v", err), info
	}
	x := c.bytes()
	if c.Mode == "bytes" {
		f, verdict := differential(c, p, t, x, "fuzz", c.Note)
		info.verdict = verdict
		return f, info
	}
	B := x
	V, err := refssz.Deserialize(t, B)
	if err != nil || !bytes.Equal(refssz.Serialize(t, V), B) {
		return report.Failf("harness", "case bytes are not a canonical encoding of %s: %v", bd.Decl, err), info
	}
	info.fixed = t.IsFixed()
	info.atLimit, info.nonEmpty = refssz.ListShapes(t, V)
	info.nonDef, _ = refssz.NonDefault(t, V)
	tag := fmt.Sprintf("[%s %s]", c.Preset, c.Shape)

	// 1. decode
	o, lerr, pan := decodeLib(c, p, B)
	if pan {
		return report.Failf(c.Type+"/Deserialize/panic", "%s %v; input %s", tag, lerr, short(B)), info
	}
	if lerr != nil {
		return report.Failf(c.Type+"/Deserialize/refuses-valid", "%s canonical encoding refused: %v; input %s", tag, lerr, short(B)), info
	}
	// 2. re-encode
	out, err, pan := encodeLib(o)
	if pan || err != nil {
		return report.Failf(c.Type+"/Serialize/error", "%s %v (panic=%v); input %s", tag, err, pan, short(B)), info
	}
	if !bytes.Equal(out, B) {
		return report.Failf(c.Type+"/Serialize/differs", "%s Serialize(Deserialize(B)) != B: %s; B=%s got=%s", tag, refssz.DiffBytes(t, B, out), short(B), short(out)), info
	}
	// 3. lengths
	var bl, fl uint64
	var hasBL, hasFL bool
	if _, pan := guard("ByteLength", func() error { bl, hasBL = o.ByteLength(); return nil }); pan {
		return report.Failf(c.Type+"/ByteLength/panic", "%s", tag), info
	}
	if hasBL && bl != uint64(len(B)) {
		return report.Failf(c.Type+"/ByteLength/wrong", "%s ByteLength() = %d, %d bytes written; B=%s", tag, bl, len(B), short(B)), info
	}
	if _, pan := guard("FixedLength", func() error { fl, hasFL = o.FixedLength(); return nil }); pan {
		return report.Failf(c.Type+"/FixedLength/panic", "%s", tag), info
	}
	if hasFL {
		want := uint64(0)
		if t.IsFixed() {
			want = uint64(len(B))
		}
		if fl != want {
			return report.Failf(c.Type+"/FixedLength/wrong", "%s FixedLength() = %d, schema %s is %s: want %d", tag, fl, t, map[bool]string{true: "fixed-size", false: "variable-size"}[t.IsFixed()], want), info
		}
	}
	if !hasBL || !hasFL {
		return report.Failf(c.Type+"/missing-method", "%s ByteLength present=%v FixedLength present=%v", tag, hasBL, hasFL), info
	}
	// 4. JSON round trip + by name
	var js []byte
	if err, pan := guard("json.Marshal", func() error { var e error; js, e = json.Marshal(o.V); return e }); err != nil {
		return report.Failf(c.Type+"/JSON/marshal-error", "%s %v (panic=%v)", tag, err, pan), info
	}
	o2, _ := newObj(c, p)
	if err, pan := guard("json.Unmarshal", func() error { return json.Unmarshal(js, o2.V) }); err != nil {
		return report.Failf(c.Type+"/JSON/unmarshal-error", "%s %v (panic=%v); json %s", tag, err, pan, trunc(string(js), 400)), info
	}
	out2, err, pan := encodeLib(o2)
	if pan || err != nil || !bytes.Equal(out2, B) {
		return report.Failf(c.Type+"/JSON/roundtrip-differs", "%s value after json round trip encodes differently (%v): %s; json %s", tag, err, refssz.DiffBytes(t, B, out2), trunc(string(js), 400)), info
	}
	if _, ex := jsonByNameExempt[c.Type]; !ex {
		dec := json.NewDecoder(bytes.NewReader(js))
		dec.UseNumber()
		var lib any
		if err := dec.Decode(&lib); err != nil {
			return report.Failf(c.Type+"/JSON/invalid", "%s %v", tag, err), info
		}
		if d := cmpJSON(t, lib, refssz.ToJSON(t, V), ""); d != "" {
			return report.Failf(c.Type+"/JSON/by-name-differs", "%s json.Marshal(struct) vs spec field names: %s; json %s", tag, d, trunc(string(js), 400)), info
		}
		info.jsonNamed = true
	}
	// 4b. the same value marshalled BY VALUE (not addressable: encoding/json cannot reach pointer-receiver
	// marshallers of its fields then) must round-trip as well — a caller holding the struct by value, in a map or
	// in an interface gets this text form
	if rv := reflect.ValueOf(o.V); rv.Kind() == reflect.Ptr && !rv.IsNil() {
		var jv []byte
		if err, pan := guard("json.Marshal(by value)", func() error { var e error; jv, e = json.Marshal(rv.Elem().Interface()); return e }); err != nil {
			return report.Failf(c.Type+"/JSON/marshal-error", "%s by value: %v (panic=%v)", tag, err, pan), info
		}
		if !bytes.Equal(jv, js) {
			o4, _ := newObj(c, p)
			if err, pan := guard("json.Unmarshal", func() error { return json.Unmarshal(jv, o4.V) }); err != nil {
				return report.Failf(c.Type+"/JSON/by-value-unmarshal-error", "%s the text json.Marshal gives for the value held by value cannot be read back: %v (panic=%v); json %s", tag, err, pan, trunc(string(jv), 400)), info
			}
			out4, err, pan := encodeLib(o4)
			if pan || err != nil || !bytes.Equal(out4, B) {
				return report.Failf(c.Type+"/JSON/by-value-roundtrip-differs", "%s value after a by-value json round trip encodes differently (%v): %s; json %s", tag, err, refssz.DiffBytes(t, B, out4), trunc(string(jv), 400)), info
			}
			info.jsonByValueDiffers = true
		}
		info.jsonByValue = true
	}
	// 5. YAML round trip
	var ys []byte
	if err, pan := guard("yaml.Marshal", func() error { var e error; ys, e = yaml.Marshal(o.V); return e }); err != nil {
		return report.Failf(c.Type+"/YAML/marshal-error", "%s %v (panic=%v)", tag, err, pan), info
	}
	o3, _ := newObj(c, p)
	if err, pan := guard("yaml.Unmarshal", func() error { return yaml.Unmarshal(ys, o3.V) }); err != nil {
		return report.Failf(c.Type+"/YAML/unmarshal-error", "%s %v (panic=%v); yaml %s", tag, err, pan, trunc(string(ys), 400)), info
	}
	out3, err, pan := encodeLib(o3)
	if pan || err != nil || !bytes.Equal(out3, B) {
		return report.Failf(c.Type+"/YAML/roundtrip-differs", "%s value after yaml round trip encodes differently (%v): %s; yaml %s", tag, err, refssz.DiffBytes(t, B, out3), trunc(string(ys), 400)), info
	}
	info.yamlOK = true

	// 5b. recycled destination: the library's decoders re-use the space of the destination object
	// ("for recycling old state objects"); whatever the object held before — a longer list, a vector of
	// another preset's length — decoding B into it must give exactly B's value
	// Domain: fixed-size types only. List fields are decoded by appending to the destination (ztyp's
	// idiom, used by every list in the library), so a destination with non-empty lists is outside what
	// any caller may pass; vectors and fixed-size containers, on the other hand, are explicitly resized
	// and overwritten in place ("re-use space if available").
	if c.Donor != "" && t.IsFixed() {
		if dp := reg.GetPreset(c.DonorPreset); dp != nil {
			donor, _ := hex.DecodeString(c.Donor)
			o4, _ := newObj(c, dp)
			if derr, dpan := guard("Deserialize", func() error { return o4.Deserialize(donor) }); derr == nil && !dpan {
				o4.Spec = p.Spec
				if err, pan := guard("Deserialize", func() error { return o4.Deserialize(B) }); err != nil || pan {
					return report.Failf(c.Type+"/Deserialize/recycled-destination-refuses-valid", "%s canonical encoding refused (%v, panic=%v) when the destination object held a %s value of %d bytes before; input %s", tag, err, pan, c.DonorPreset, len(donor), short(B)), info
				}
				out4, err, pan := encodeLib(o4)
				if pan || err != nil || !bytes.Equal(out4, B) {
					return report.Failf(c.Type+"/Deserialize/recycled-destination-keeps-old-content", "%s decoding B into an object that held a %s value (%d bytes) before leaves a value that encodes differently (%v): %s", tag, c.DonorPreset, len(donor), err, refssz.DiffBytes(t, B, out4)), info
				}
				if bl, ok := o4.ByteLength(); ok && bl != uint64(len(B)) {
					return report.Failf(c.Type+"/ByteLength/wrong-after-recycling", "%s ByteLength() = %d after decoding %d bytes into a recycled object", tag, bl, len(B)), info
				}
				info.recycled = true
			}
		}
	}

	// 6. malformed inputs in the three classes, derived deterministically from (V, B)
	if len(B) <= 1<<18 {
		lay := refssz.Analyze(t, V)
		var muts []refssz.Mutant
		muts = append(muts, refssz.Truncations(lay, B, 60)...)
		muts = append(muts, refssz.OverLimit(t, V, 1<<17)...)
		muts = append(muts, refssz.OffsetCorruptions(lay, B, 12)...)
		for _, m := range muts {
			info.nMut[m.Class]++
			if _, e := refssz.Deserialize(t, m.B); e != nil {
				info.refused[m.Class]++
			} else if m.Class == "over-limit" {
				return report.Failf("harness", "over-limit mutant accepted by the reference decoder: %s", m.Desc), info
			}
			f, verdict := differential(c, p, t, m.B, m.Class, m.Desc)
			if f != nil {
				return f, info
			}
			if strings.HasPrefix(verdict, "L") {
				info.lenient[verdict]++
			}
		}
	}
	return nil, info
}

func trunc(s string, n int) string {
	if len(s) > n {
		return s[:n] + "…"
	}
	return s
}

// ---------------------------------------------------------------- generators

func genValue(rt *rapid.T, typ string, p *reg.Preset, shape string) *Case {
	bd := bindings[typ]
	t := p.Sch.MustGet(bd.Decl)
	o := refssz.GenOpts{}
	switch shape {
	case "min":
		o.Minimal = true
	case "at-limit":
		o.AtLimit = true
		if p.Family != "custom" {
			o.LimitCap = 16
		}
	}
	v := refssz.Random(rt, t, o, "v")
	b := refssz.Serialize(t, v)
	c := &Case{Type: typ, Preset: p.Name, Mode: "value", Shape: shape, Hex: hex.EncodeToString(b), b: b}
	// donor for the recycled-destination step: same type, same or another preset, usually longer lists
	if t.IsFixed() && rapid.IntRange(0, 2).Draw(rt, "with_donor") != 0 {
		dp := p
		if rapid.Bool().Draw(rt, "donor_other_preset") {
			dp = reg.GetPreset(rapid.SampledFrom(reg.PresetNames).Draw(rt, "donor_preset"))
		}
		if dp.Family == "mainnet" && len(b) > 1<<14 {
			dp = p // keep big mainnet values cheap
		}
		if dt, err := dp.Sch.Get(bd.Decl); err == nil {
			do := refssz.GenOpts{AtLimit: rapid.Bool().Draw(rt, "donor_at_limit")}
			if dp.Family != "custom" {
				do.LimitCap = 16
			}
			dv := refssz.Random(rt, dt, do, "donor")
			c.Donor, c.DonorPreset = hex.EncodeToString(refssz.Serialize(dt, dv)), dp.Name
		}
	}
	return c
}

// mutate applies 1..4 rapid-drawn edits to a valid encoding.
func mutate(rt *rapid.T, b []byte) ([]byte, string) {
	x := append([]byte{}, b...)
	n := rapid.IntRange(1, 4).Draw(rt, "n_edits")
	var notes []string
	for i := 0; i < n; i++ {
		kind := rapid.IntRange(0, 7).Draw(rt, "edit")
		if len(x) == 0 && kind != 5 {
			kind = 5
		}
		switch kind {
		case 0: // bit flip
			pos := rapid.IntRange(0, len(x)-1).Draw(rt, "pos")
			bit := rapid.IntRange(0, 7).Draw(rt, "bit")
			x[pos] ^= 1 << uint(bit)
			notes = append(notes, fmt.Sprintf("flip %d.%d", pos, bit))
		case 1: // byte set
			pos := rapid.IntRange(0, len(x)-1).Draw(rt, "pos")
			val := rapid.SampledFrom([]byte{0, 1, 2, 3, 4, 8, 0x7f, 0x80, 0xff}).Draw(rt, "val")
			x[pos] = val
			notes = append(notes, fmt.Sprintf("set %d=%#x", pos, val))
		case 2: // truncate
			cut := rapid.IntRange(0, len(x)).Draw(rt, "cut")
			x = x[:cut]
			notes = append(notes, fmt.Sprintf("cut %d", cut))
		case 3: // small little-endian uint32 at a 4-aligned-ish position (offset-like)
			if len(x) >= 4 {
				pos := rapid.IntRange(0, len(x)-4).Draw(rt, "pos")
				val := rapid.IntRange(0, len(x)+8).Draw(rt, "off")
				x[pos], x[pos+1], x[pos+2], x[pos+3] = byte(val), byte(val>>8), byte(val>>16), byte(val>>24)
				notes = append(notes, fmt.Sprintf("u32@%d=%d", pos, val))
			}
		case 4: // splice a range from elsewhere
			if len(x) >= 2 {
				from := rapid.IntRange(0, len(x)-1).Draw(rt, "from")
				to := rapid.IntRange(0, len(x)-1).Draw(rt, "to")
				l := rapid.IntRange(1, 8).Draw(rt, "len")
				for k := 0; k < l && from+k < len(x) && to+k < len(x); k++ {
					x[to+k] = x[from+k]
				}
				notes = append(notes, fmt.Sprintf("copy %d->%d x%d", from, to, l))
			}
		case 5: // append bytes
			extra := rapid.SliceOfN(rapid.Byte(), 1, 9).Draw(rt, "extra")
			x = append(x, extra...)
			notes = append(notes, fmt.Sprintf("append %x", extra))
		case 6: // delete a range
			pos := rapid.IntRange(0, len(x)-1).Draw(rt, "pos")
			l := rapid.IntRange(1, 8).Draw(rt, "len")
			if pos+l > len(x) {
				l = len(x) - pos
			}
			x = append(x[:pos], x[pos+l:]...)
			notes = append(notes, fmt.Sprintf("delete %d x%d", pos, l))
		case 7: // insert bytes
			pos := rapid.IntRange(0, len(x)).Draw(rt, "pos")
			ins := rapid.SliceOfN(rapid.Byte(), 1, 8).Draw(rt, "ins")
			x = append(x[:pos], append(append([]byte{}, ins...), x[pos:]...)...)
			notes = append(notes, fmt.Sprintf("insert %x@%d", ins, pos))
		}
	}
	return x, strings.Join(notes, ", ")
}

func genBytes(rt *rapid.T, typ string, p *reg.Preset) *Case {
	var x []byte
	var note string
	if rapid.IntRange(0, 9).Draw(rt, "arbitrary") == 0 {
		x = rapid.SliceOfN(rapid.Byte(), 0, 300).Draw(rt, "x")
		note = "arbitrary bytes"
	} else {
		shape := rapid.SampledFrom([]string{"typical", "typical", "min", "at-limit"}).Draw(rt, "shape")
		base := genValue(rt, typ, p, shape)
		x, note = mutate(rt, base.b)
		note = "mutated " + shape + " encoding: " + note
	}
	return &Case{Type: typ, Preset: p.Name, Mode: "bytes", Hex: hex.EncodeToString(x), Note: note, b: x}
}

// ---------------------------------------------------------------- driver

// DifferentialBody is the body shared by the "x" searches and by FuzzDecode.
func DifferentialBody(typ, preset string, x []byte) *report.Failure {
	c := &Case{Type: typ, Preset: preset, Mode: "bytes", Hex: hex.EncodeToString(x), b: x, Note: "fuzz input"}
	f, _ := run(c)
	return f
}

func sortedTypes() []string {
	ts := make([]string, 0, len(bindings))
	for k := range bindings {
		ts = append(ts, k)
	}
	sort.Strings(ts)
	return ts
}

func defaultSize(typ string, p *reg.Preset) int {
	t := p.Sch.MustGet(bindings[typ].Decl)
	return len(refssz.Serialize(t, refssz.Default(t)))
}

func scale(n, size int) int {
	switch {
	case size > 1<<20:
		n /= 16
	case size > 1<<17:
		n /= 8
	case size > 1<<14:
		n /= 3
	}
	if n < 2 {
		n = 2
	}
	return n
}

func TestCheck(t *testing.T) {
	r := report.Begin("C04")
	defer r.Finish()
	r.Rule("per (exported Go SSZ type, preset in {mainnet, minimal, custom-a, custom-b, custom-c}) values drawn with refssz.Random in shapes min (all lists empty) / typical (list lengths biased to 0,1,limit-1,limit) / at-limit (every list, bitlist and byte list whose limit is constructible exactly at its limit) cross into the library as reference-encoded bytes; every value also yields derived inputs in the three refusal classes (truncations at field boundaries ±1, one list one over its limit via the reference encoder, corrupted offsets) judged differentially against the strict reference decoder; 'x' searches feed rapid-mutated encodings and arbitrary bytes to the same differential body. non-trivial = value has >=1 non-default leaf and, for variable-size types, >=1 non-empty list; distinct key = (type, preset, shape, fixed/variable, #lists at limit capped at 3)")
	r.Assume("refssz and /verif/spec_tables/ssz_schemas.txt are the SSZ spec and the spec's schemas (harness transcription, cross-checked three ways in C05)",
		"MAX_EXTRA_DATA_BYTES and BYTES_PER_LOGS_BLOOM are compile-time constants of the library and are not varied",
		"encoding/json and gopkg.in/yaml.v3 are correct")
	replay := func(raw json.RawMessage) *report.Failure {
		var kp struct {
			Kind string `json:"kind"`
		}
		json.Unmarshal(raw, &kp)
		if kp.Kind == "big" {
			var bc BigCase
			if err := json.Unmarshal(raw, &bc); err != nil {
				return report.Failf("harness", "bad case: %v", err)
			}
			return runBig(r, &bc)
		}
		var c Case
		if err := json.Unmarshal(raw, &c); err != nil {
			return report.Failf("harness", "bad case: %v", err)
		}
		f, _ := run(&c)
		return f
	}
	r.Regress(replay)
	if r.Replay != "" {
		return
	}

	// coverage of the `programs` quantifier: scan the repository for Deserialize methods
	repo := os.Getenv("VERIF_REPO")
	if repo == "" {
		repo = "/repo"
	}
	unc, extra, scanned, err := reg.Uncovered(repo)
	if err != nil {
		r.Inconclusive("cannot scan " + repo + ": " + err.Error())
	}
	if unc == nil {
		unc = []string{}
	}
	r.S.Extra["uncovered"] = unc
	r.S.Extra["scanned_types_with_Deserialize"] = scanned
	r.S.Extra["registered_types"] = len(reg.Constructors)
	r.S.Extra["registered_not_in_scan"] = extra
	ex := make([]string, 0, len(jsonByNameExempt))
	for k, why := range jsonByNameExempt {
		ex = append(ex, k+": "+why)
	}
	for k := range jsonUntagged {
		ex = append(ex, k+" (no json tags: compared through an explicit Go-field-name key map, not exempted)")
	}
	sort.Strings(ex)
	r.S.Extra["json_by_name_exempt"] = ex
	r.S.Extra["leniencies"] = leniencyNotes
	for _, b := range reg.Bindings() {
		if _, ok := reg.Constructors[b.Go]; !ok {
			r.Inconclusive("schema binding without constructor: " + b.Go)
		}
	}

	types := sortedTypes()
	fams := []string{"mainnet", "minimal", "custom"}
	for _, typ := range types {
		for _, f := range fams {
			r.Mandatory("seen:" + typ + "@" + f)
		}
	}
	// at-limit values are constructible for every list-bearing type under the custom presets
	custom := reg.GetPreset("custom-a")
	for _, typ := range types {
		if refssz.HasLists(custom.Sch.MustGet(bindings[typ].Decl)) {
			r.Mandatory("at-limit:" + typ + "@custom")
		}
	}
	r.Mandatory("shape:at-limit", "shape:min", "shape:typical",
		"refused:truncation", "refused:over-limit", "refused:offset", "kind:fixed-size", "kind:variable-size")

	record := func(c *Case, info *runInfo, p *reg.Preset) {
		r.Eval(1)
		if c.Mode != "value" {
			r.Class("x:" + p.Family + ":" + info.verdict)
			return
		}
		for k, n := range info.lenient {
			r.ClassN("derived:tolerated:"+k, int64(n))
		}
		r.Hit("seen:" + c.Type + "@" + p.Family)
		if c.Shape != "at-limit" {
			r.Hit("shape:" + c.Shape)
		}
		if info.atLimit > 0 {
			r.Hit("shape:at-limit")
			r.Class("value:has-list-at-limit")
			if p.Family == "custom" {
				r.Hit("at-limit:" + c.Type + "@custom")
			}
		}
		if info.fixed {
			r.Hit("kind:fixed-size")
		} else {
			r.Hit("kind:variable-size")
		}
		for k, n := range info.nMut {
			r.ClassN("derived:"+k, int64(n))
			r.ClassN("derived-refused-by-reference:"+k, int64(info.refused[k]))
			if info.refused[k] > 0 {
				r.Hit("refused:" + k)
			}
		}
		r.Class("value:" + p.Family + ":" + c.Shape)
		if info.jsonNamed {
			r.Class("json-by-name-compared")
		}
		if info.jsonByValue {
			r.Class("json-by-value-round-trip")
		}
		if info.jsonByValueDiffers {
			r.Class("json-by-value-text-differs-from-by-pointer(still round-trips)")
		}
		if info.recycled {
			r.Class("recycled-destination-decoded")
			if c.DonorPreset != c.Preset {
				r.Class("recycled-destination-decoded:donor-of-another-preset")
			}
		}
		if info.nonDef && (info.fixed || info.nonEmpty > 0) {
			al := info.atLimit
			if al > 3 {
				al = 3
			}
			r.NonTrivial(fmt.Sprintf("%s|%s|%s|%v|%d", c.Type, c.Preset, c.Shape, info.fixed, al))
			r.Sample(c.Shape+"/"+p.Family, func() any {
				cc := *c
				if len(cc.Hex) > 600 {
					cc.Hex = cc.Hex[:600] + "…"
				}
				return cc
			})
		}
	}

	pair := 0
	for _, bt := range bigTypes {
		r.Mandatory("big-list:" + bt.name)
	}
	if !r.Search(t, "big-lists", 900000, r.N(64, 400), func(rt *rapid.T) (any, *report.Failure) {
		c := genBig(rt)
		return c, runBig(r, c)
	}) {
		return
	}
	only := os.Getenv("VERIF_C04_ONLY") // development aid: substring filter on the type name
	for ti, typ := range types {
		if only != "" && !strings.Contains(typ, only) {
			continue
		}
		for pi, pn := range reg.PresetNames {
			idx := ti*len(reg.PresetNames) + pi
			pair++
			if idx%r.S.NShards != r.S.Shard {
				continue
			}
			typ, p := typ, reg.GetPreset(pn)
			size := defaultSize(typ, p)
			// class tour: one case of each shape, then the free search
			for si, shape := range []string{"min", "at-limit"} {
				shape := shape
				r.Search(t, "tour:"+shape, 100000+idx*4+si, 1, func(rt *rapid.T) (any, *report.Failure) {
					c := genValue(rt, typ, p, shape)
					f, info := run(c)
					record(c, info, p)
					return c, f
				})
			}
			nv := scale(tier(r, 40, 400), size)
			r.Search(t, "v|"+typ+"|"+pn, idx, nv, func(rt *rapid.T) (any, *report.Failure) {
				shape := rapid.SampledFrom([]string{"typical", "typical", "typical", "at-limit", "min"}).Draw(rt, "shape")
				c := genValue(rt, typ, p, shape)
				f, info := run(c)
				record(c, info, p)
				return c, f
			})
			nx := scale(tier(r, 100, 2000), size)
			r.Search(t, "x|"+typ+"|"+pn, 200000+idx, nx, func(rt *rapid.T) (any, *report.Failure) {
				c := genBytes(rt, typ, p)
				f, info := run(c)
				record(c, info, p)
				return c, f
			})
		}
	}
	_ = pair
}

func tier(r *report.Run, q, th int) int {
	if r.Thorough() {
		return th
	}
	return q
}

var leniencyNotes = []string{
	"L1 tolerated: trailing bytes after a fixed-size object decoded from a longer top-level scope are not read (outside the three refusal classes)",
	"L2 tolerated: set padding bits in JustificationBits / SyncnetBits (also inside MetaData) are accepted (outside the three refusal classes)",
	"JSON: nil slices marshal as null instead of []; round-trips; by-name comparison treats null as the empty list",
	"JSON: capella.HistoricalSummary has no json tags (keys BlockSummaryRoot/StateSummaryRoot); compared through an explicit key map",
	"phase0.RegistryIndices.FixedLength() takes no *Spec, so the type is not a common.SpecObj and cannot be spec.Wrap-ped; exercised through per-method adapters",
}

// corpusDir is where FuzzDecode's seed corpus lives.
func corpusDir() string {
	root := os.Getenv("VERIF_ROOT")
	if root == "" {
		root = "/verif"
	}
	return filepath.Join(root, "corpus", "c04")
}
