package reg

import (
	"bytes"
	"fmt"

	"github.com/protolambda/zrnt/eth2/beacon/common"
	"github.com/protolambda/ztyp/codec"
	"github.com/protolambda/ztyp/tree"
)

// Obj adapts a registered value (pointer to a library struct) to one calling convention.
// Spec-parametrised types implement common.SpecObj (methods take *common.Spec), plain ones
// common.SSZObj; the individual methods are asserted separately so that a type lacking one
// method is still exercised on the others (and reported).
type Obj struct {
	Spec *common.Spec
	V    any
}

type specDes interface {
	Deserialize(spec *common.Spec, dr *codec.DecodingReader) error
}
type plainDes interface {
	Deserialize(dr *codec.DecodingReader) error
}
type specSer interface {
	Serialize(spec *common.Spec, w *codec.EncodingWriter) error
}
type plainSer interface {
	Serialize(w *codec.EncodingWriter) error
}
type specBL interface {
	ByteLength(spec *common.Spec) uint64
}
type plainBL interface{ ByteLength() uint64 }
type specFL interface {
	FixedLength(spec *common.Spec) uint64
}
type plainFL interface{ FixedLength() uint64 }
type specHTR interface {
	HashTreeRoot(spec *common.Spec, h tree.HashFn) common.Root
}
type plainHTR interface {
	HashTreeRoot(h tree.HashFn) common.Root
}

// Kind reports "spec" for common.SpecObj implementers, "plain" for common.SSZObj, else "partial".
func (o Obj) Kind() string {
	if _, ok := o.V.(common.SpecObj); ok {
		return "spec"
	}
	if _, ok := o.V.(common.SSZObj); ok {
		return "plain"
	}
	return "partial"
}

var ErrNoMethod = fmt.Errorf("method not implemented by the type")

func (o Obj) Deserialize(b []byte) error {
	dr := codec.NewDecodingReader(bytes.NewReader(b), uint64(len(b)))
	switch x := o.V.(type) {
	case specDes:
		return x.Deserialize(o.Spec, dr)
	case plainDes:
		return x.Deserialize(dr)
	}
	return ErrNoMethod
}

func (o Obj) Serialize() ([]byte, error) {
	var buf bytes.Buffer
	w := codec.NewEncodingWriter(&buf)
	switch x := o.V.(type) {
	case specSer:
		if err := x.Serialize(o.Spec, w); err != nil {
			return buf.Bytes(), err
		}
	case plainSer:
		if err := x.Serialize(w); err != nil {
			return buf.Bytes(), err
		}
	default:
		return nil, ErrNoMethod
	}
	return buf.Bytes(), nil
}

func (o Obj) ByteLength() (uint64, bool) {
	switch x := o.V.(type) {
	case specBL:
		return x.ByteLength(o.Spec), true
	case plainBL:
		return x.ByteLength(), true
	}
	return 0, false
}

func (o Obj) FixedLength() (uint64, bool) {
	switch x := o.V.(type) {
	case specFL:
		return x.FixedLength(o.Spec), true
	case plainFL:
		return x.FixedLength(), true
	}
	return 0, false
}

func (o Obj) HashTreeRoot() ([32]byte, bool) {
	switch x := o.V.(type) {
	case specHTR:
		return x.HashTreeRoot(o.Spec, tree.GetHashFn()), true
	case plainHTR:
		return x.HashTreeRoot(tree.GetHashFn()), true
	}
	return [32]byte{}, false
}
