package reg

import (
	"pgregory.net/rapid"

	"zrntverif/refssz"
)

// Shapes of generated values.
var Shapes = []string{"min", "typical", "at-limit"}

// GenValue draws a value of the schema bound to Go type typ under preset p:
// shape "min" = every list empty, "typical" = list lengths biased to {0,1,limit-1,limit},
// "at-limit" = every list / bitlist / byte list whose limit is constructible exactly at its limit.
func GenValue(rt *rapid.T, decl string, p *Preset, shape string) (*refssz.Type, any, []byte) {
	t := p.Sch.MustGet(decl)
	o := refssz.GenOpts{}
	switch shape {
	case "min":
		o.Minimal = true
	case "at-limit":
		o.AtLimit = true
		if p.Family != "custom" {
			o.LimitCap = 16
		}
	}
	v := refssz.Random(rt, t, o, "v")
	return t, v, refssz.Serialize(t, v)
}
