package reg

import (
	"sort"
	"sync"

	"github.com/protolambda/zrnt/eth2/beacon/common"

	"zrntverif/refspec"
	"zrntverif/refssz"
	"zrntverif/zb"
)

// Preset is one configuration seen from both sides: the reference constants + resolved schema,
// and the library's *common.Spec for the same constants.
type Preset struct {
	Name   string // mainnet | minimal | custom-a | custom-b | custom-c
	Family string // mainnet | minimal | custom
	Cfg    *refspec.Config
	Spec   *common.Spec
	Sch    *refssz.Schema
}

// Tiny custom presets: every list limit is small enough that at-limit and over-limit values are
// constructible. custom-a uses odd / non-power-of-two / non-multiple-of-8 limits, custom-b
// powers of two and multiples of 8 (a bitlist at a limit that is a multiple of 8 needs one extra
// byte for the delimiter). MAX_EXTRA_DATA_BYTES and BYTES_PER_LOGS_BLOOM are never varied: the
// library fixes them at compile time.
var CustomA = map[string]uint64{
	"SLOTS_PER_EPOCH": 4, "EPOCHS_PER_ETH1_VOTING_PERIOD": 1, "MAX_COMMITTEES_PER_SLOT": 3,
	"VALIDATOR_REGISTRY_LIMIT": 5, "MAX_ATTESTATIONS": 2, "MAX_VALIDATORS_PER_COMMITTEE": 9,
	"HISTORICAL_ROOTS_LIMIT": 3, "SLOTS_PER_HISTORICAL_ROOT": 8, "EPOCHS_PER_HISTORICAL_VECTOR": 8,
	"EPOCHS_PER_SLASHINGS_VECTOR": 4, "SYNC_COMMITTEE_SIZE": 8, "MAX_TRANSACTIONS_PER_PAYLOAD": 3,
	"MAX_BYTES_PER_TRANSACTION": 40, "MAX_WITHDRAWALS_PER_PAYLOAD": 2, "MAX_BLOB_COMMITMENTS_PER_BLOCK": 3,
	"PENDING_DEPOSITS_LIMIT": 3, "PENDING_PARTIAL_WITHDRAWALS_LIMIT": 2, "PENDING_CONSOLIDATIONS_LIMIT": 1,
	"MAX_PROPOSER_SLASHINGS": 1, "MAX_ATTESTER_SLASHINGS": 1, "MAX_DEPOSITS": 2, "MAX_VOLUNTARY_EXITS": 3,
	"MAX_BLS_TO_EXECUTION_CHANGES": 2, "MAX_ATTESTATIONS_ELECTRA": 2, "MAX_ATTESTER_SLASHINGS_ELECTRA": 1,
	"MAX_DEPOSIT_REQUESTS_PER_PAYLOAD": 2, "MAX_WITHDRAWAL_REQUESTS_PER_PAYLOAD": 1, "MAX_CONSOLIDATION_REQUESTS_PER_PAYLOAD": 1,
}

var CustomB = map[string]uint64{
	"SLOTS_PER_EPOCH": 8, "EPOCHS_PER_ETH1_VOTING_PERIOD": 1, "MAX_COMMITTEES_PER_SLOT": 4,
	"VALIDATOR_REGISTRY_LIMIT": 8, "MAX_ATTESTATIONS": 4, "MAX_VALIDATORS_PER_COMMITTEE": 16,
	"HISTORICAL_ROOTS_LIMIT": 4, "SLOTS_PER_HISTORICAL_ROOT": 16, "EPOCHS_PER_HISTORICAL_VECTOR": 16,
	"EPOCHS_PER_SLASHINGS_VECTOR": 8, "SYNC_COMMITTEE_SIZE": 36, "MAX_TRANSACTIONS_PER_PAYLOAD": 2,
	"MAX_BYTES_PER_TRANSACTION": 33, "MAX_WITHDRAWALS_PER_PAYLOAD": 3, "MAX_BLOB_COMMITMENTS_PER_BLOCK": 5,
	"PENDING_DEPOSITS_LIMIT": 5, "PENDING_PARTIAL_WITHDRAWALS_LIMIT": 4, "PENDING_CONSOLIDATIONS_LIMIT": 3,
	"MAX_PROPOSER_SLASHINGS": 2, "MAX_ATTESTER_SLASHINGS": 2, "MAX_DEPOSITS": 1, "MAX_VOLUNTARY_EXITS": 1,
	"MAX_BLS_TO_EXECUTION_CHANGES": 1, "MAX_ATTESTATIONS_ELECTRA": 3, "MAX_ATTESTER_SLASHINGS_ELECTRA": 2,
	"MAX_DEPOSIT_REQUESTS_PER_PAYLOAD": 3, "MAX_WITHDRAWAL_REQUESTS_PER_PAYLOAD": 2, "MAX_CONSOLIDATION_REQUESTS_PER_PAYLOAD": 2,
}

// custom-c: vector lengths that are not powers of two (padding leaves, masks instead of modulo),
// SLOTS_PER_EPOCH not a power of two, a sync committee size divisible by the 4 subnets but not by 8,
// and operation-list limits that are pairwise different AND fall into different tree depths
// (1,2,3,5,9,17 -> depth 0..5), so that a limit constant borrowed from a neighbouring list changes both
// the decoder's bound and the list root.
var CustomC = map[string]uint64{
	"SLOTS_PER_EPOCH": 6, "EPOCHS_PER_ETH1_VOTING_PERIOD": 1, "MAX_COMMITTEES_PER_SLOT": 5,
	"VALIDATOR_REGISTRY_LIMIT": 11, "MAX_ATTESTATIONS": 3, "MAX_VALIDATORS_PER_COMMITTEE": 13,
	"HISTORICAL_ROOTS_LIMIT": 6, "SLOTS_PER_HISTORICAL_ROOT": 12, "EPOCHS_PER_HISTORICAL_VECTOR": 10,
	"EPOCHS_PER_SLASHINGS_VECTOR": 6, "SYNC_COMMITTEE_SIZE": 20, "MAX_TRANSACTIONS_PER_PAYLOAD": 5,
	"MAX_BYTES_PER_TRANSACTION": 47, "MAX_WITHDRAWALS_PER_PAYLOAD": 6, "MAX_BLOB_COMMITMENTS_PER_BLOCK": 7,
	"PENDING_DEPOSITS_LIMIT": 7, "PENDING_PARTIAL_WITHDRAWALS_LIMIT": 3, "PENDING_CONSOLIDATIONS_LIMIT": 2,
	"MAX_PROPOSER_SLASHINGS": 1, "MAX_ATTESTER_SLASHINGS": 2, "MAX_DEPOSITS": 5, "MAX_VOLUNTARY_EXITS": 9,
	"MAX_BLS_TO_EXECUTION_CHANGES": 17, "MAX_ATTESTATIONS_ELECTRA": 4, "MAX_ATTESTER_SLASHINGS_ELECTRA": 3,
	"MAX_DEPOSIT_REQUESTS_PER_PAYLOAD": 5, "MAX_WITHDRAWAL_REQUESTS_PER_PAYLOAD": 3, "MAX_CONSOLIDATION_REQUESTS_PER_PAYLOAD": 2,
}

// custom-d (state histories of C05 only): custom-c with a registry limit of 40 — for the one-byte-per-validator
// participation lists ceil(40/32) = 2 chunks but floor(40/32) = 1, i.e. a tree depth that depends on rounding up.
var CustomD = func() map[string]uint64 {
	m := map[string]uint64{}
	for k, v := range CustomC {
		m[k] = v
	}
	m["VALIDATOR_REGISTRY_LIMIT"] = 40
	return m
}()

var customOverrides = map[string]map[string]uint64{"custom-a": CustomA, "custom-b": CustomB, "custom-c": CustomC, "custom-d": CustomD}

var PresetNames = []string{"mainnet", "minimal", "custom-a", "custom-b", "custom-c"}

var (
	presetMu    sync.Mutex
	presetCache = map[string]*Preset{}
)

// GetPreset builds (once; immutable afterwards) the named preset.
func GetPreset(name string) *Preset {
	presetMu.Lock()
	defer presetMu.Unlock()
	if p, ok := presetCache[name]; ok {
		return p
	}
	var cfg *refspec.Config
	fam := name
	switch name {
	case "mainnet", "minimal":
		cfg = refspec.Official(name)
	case "custom-a", "custom-b", "custom-c", "custom-d":
		fam = "custom"
		cfg = refspec.Official("minimal").Clone()
		cfg.Name = "custom"
		ov := customOverrides[name]
		for k, v := range ov {
			cfg.U[k] = v
		}
	default:
		return nil
	}
	p := &Preset{Name: name, Family: fam, Cfg: cfg, Spec: zb.ToSpec(cfg), Sch: refspec.SchemaTable().Resolve(cfg.U)}
	presetCache[name] = p
	return p
}

// Binding ties a Go type to the schema declaration it must encode as.
type Binding struct {
	Go     string   // "phase0.Attestation"
	Decl   string   // schema declaration name
	View   string   // view= expression ("" if none)
	Flags  []string // helper | legacy
	SpecFn bool
}

// Bindings lists every go= binding of the schema table, sorted by Go type name.
func Bindings() []Binding {
	tab := refspec.SchemaTable()
	var out []Binding
	for _, decl := range tab.Names() {
		for _, g := range tab.GoTypes(decl) {
			out = append(out, Binding{Go: g, Decl: decl, View: tab.ViewExpr(decl), Flags: tab.Flags(decl)})
		}
	}
	sort.Slice(out, func(i, j int) bool { return out[i].Go < out[j].Go })
	return out
}
