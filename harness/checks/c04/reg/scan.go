package reg

import (
	"go/ast"
	"go/parser"
	"go/token"
	"os"
	"path/filepath"
	"sort"
	"strings"
)

// ScanDeserializers parses /repo/eth2/beacon/** (non-test files) and returns "pkg.Type" for
// every type that has a method named Deserialize.
func ScanDeserializers(repo string) ([]string, error) {
	root := filepath.Join(repo, "eth2", "beacon")
	seen := map[string]bool{}
	err := filepath.Walk(root, func(path string, info os.FileInfo, err error) error {
		if err != nil {
			return err
		}
		if info.IsDir() || !strings.HasSuffix(path, ".go") || strings.HasSuffix(path, "_test.go") {
			return nil
		}
		fset := token.NewFileSet()
		f, err := parser.ParseFile(fset, path, nil, 0)
		if err != nil {
			return err
		}
		for _, d := range f.Decls {
			fd, ok := d.(*ast.FuncDecl)
			if !ok || fd.Recv == nil || fd.Name.Name != "Deserialize" || len(fd.Recv.List) != 1 {
				continue
			}
			t := fd.Recv.List[0].Type
			if st, ok := t.(*ast.StarExpr); ok {
				t = st.X
			}
			if id, ok := t.(*ast.Ident); ok {
				seen[f.Name.Name+"."+id.Name] = true
			}
		}
		return nil
	})
	out := make([]string, 0, len(seen))
	for k := range seen {
		out = append(out, k)
	}
	sort.Strings(out)
	return out, err
}

// Uncovered returns the scanned types that have no constructor in the registry (unexported
// types are listed too, marked as such) and the registered types the scan did not find.
func Uncovered(repo string) (uncovered []string, extra []string, scanned int, err error) {
	all, err := ScanDeserializers(repo)
	if err != nil {
		return nil, nil, 0, err
	}
	have := map[string]bool{}
	for _, t := range all {
		have[t] = true
		if _, ok := Constructors[t]; !ok {
			name := t[strings.Index(t, ".")+1:]
			if name != "" && name[0] >= 'a' && name[0] <= 'z' {
				t += " (unexported)"
			}
			uncovered = append(uncovered, t)
		}
	}
	for t := range Constructors {
		if !have[t] {
			extra = append(extra, t)
		}
	}
	sort.Strings(extra)
	return uncovered, extra, len(all), nil
}
