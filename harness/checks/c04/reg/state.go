package reg

import (
	"bytes"
	"fmt"

	"github.com/protolambda/zrnt/eth2/beacon/altair"
	"github.com/protolambda/zrnt/eth2/beacon/bellatrix"
	"github.com/protolambda/zrnt/eth2/beacon/capella"
	"github.com/protolambda/zrnt/eth2/beacon/common"
	"github.com/protolambda/zrnt/eth2/beacon/deneb"
	"github.com/protolambda/zrnt/eth2/beacon/electra"
	"github.com/protolambda/zrnt/eth2/beacon/phase0"
	"github.com/protolambda/ztyp/codec"
	"github.com/protolambda/ztyp/view"
)

// Forks in order; index = fork number used by C05's histories.
var Forks = []string{"phase0", "altair", "bellatrix", "capella", "deneb", "electra"}

func ForkIndex(name string) int {
	for i, f := range Forks {
		if f == name {
			return i
		}
	}
	return -1
}

// StateDecl is the schema declaration of a fork's BeaconState.
func StateDecl(fork string) string { return fork + ".BeaconState" }

// StateTypeDef is the library's ztyp container type of a fork's state.
func StateTypeDef(spec *common.Spec, fork string) *view.ContainerTypeDef {
	switch fork {
	case "phase0":
		return phase0.BeaconStateType(spec)
	case "altair":
		return altair.BeaconStateType(spec)
	case "bellatrix":
		return bellatrix.BeaconStateType(spec)
	case "capella":
		return capella.BeaconStateType(spec)
	case "deneb":
		return deneb.BeaconStateType(spec)
	case "electra":
		return electra.BeaconStateType(spec)
	}
	return nil
}

// AsState wraps a container view in the fork's BeaconStateView.
func AsState(fork string, v view.View, err error) (view.View, error) {
	switch fork {
	case "phase0":
		return phase0.AsBeaconStateView(v, err)
	case "altair":
		return altair.AsBeaconStateView(v, err)
	case "bellatrix":
		return bellatrix.AsBeaconStateView(v, err)
	case "capella":
		return capella.AsBeaconStateView(v, err)
	case "deneb":
		return deneb.AsBeaconStateView(v, err)
	case "electra":
		return electra.AsBeaconStateView(v, err)
	}
	return nil, fmt.Errorf("unknown fork %q", fork)
}

// LoadStateView decodes state bytes into the fork's tree-backed state view.
func LoadStateView(spec *common.Spec, fork string, b []byte) (view.View, error) {
	td := StateTypeDef(spec, fork)
	if td == nil {
		return nil, fmt.Errorf("unknown fork %q", fork)
	}
	v, err := td.Deserialize(codec.NewDecodingReader(bytes.NewReader(b), uint64(len(b))))
	return AsState(fork, v, err)
}

// ViewBytes serializes any view.
func ViewBytes(v view.View) ([]byte, error) {
	var buf bytes.Buffer
	if err := v.Serialize(codec.NewEncodingWriter(&buf)); err != nil {
		return nil, err
	}
	return buf.Bytes(), nil
}

// DecodeView decodes b with a TypeDef.
func DecodeView(td view.TypeDef, b []byte) (view.View, error) {
	return td.Deserialize(codec.NewDecodingReader(bytes.NewReader(b), uint64(len(b))))
}
