package c04

// Native fuzz target with the differential oracle of TestCheck's "x" searches:
//   cd /verif/harness && go test ./checks/c04 -run '^$' -fuzz FuzzDecode -fuzztime 4m
// The seed corpus is /verif/corpus/c04/seeds.txt (valid reference encodings, one per
// (type, preset), written by `VERIF_C04_WRITE_CORPUS=1 go test ./checks/c04 -run TestCorpus`).
// `go test -fuzz` cannot be started from inside a test: the driver (/verif/check, thorough tier) starts
// it from the compiled test binary after the rapid shards (-test.fuzz FuzzDecode, all cores, time-boxed);
// TestCheck additionally runs the same body (DifferentialBody) over rapid-mutated encodings.

import (
	"bufio"
	"encoding/hex"
	"fmt"
	"os"
	"path/filepath"
	"strings"
	"testing"

	"pgregory.net/rapid"

	"zrntverif/checks/c04/reg"
	"zrntverif/report"
)

type seed struct {
	typ, preset string
	b           []byte
}

func loadSeeds() []seed {
	f, err := os.Open(filepath.Join(corpusDir(), "seeds.txt"))
	if err != nil {
		return nil
	}
	defer f.Close()
	var out []seed
	sc := bufio.NewScanner(f)
	sc.Buffer(make([]byte, 1<<20), 1<<26)
	for sc.Scan() {
		p := strings.Fields(sc.Text())
		if len(p) < 2 {
			continue
		}
		var b []byte
		if len(p) == 3 {
			b, _ = hex.DecodeString(p[2])
		}
		out = append(out, seed{p[0], p[1], b})
	}
	return out
}

func FuzzDecode(f *testing.F) {
	types := sortedTypes()
	index := map[string]int{}
	for i, t := range types {
		index[t] = i
	}
	pidx := map[string]int{}
	for i, p := range reg.PresetNames {
		pidx[p] = i
	}
	for _, s := range loadSeeds() {
		f.Add(uint16(index[s.typ]), uint8(pidx[s.preset]), s.b)
	}
	f.Add(uint16(0), uint8(0), []byte{})
	f.Fuzz(func(t *testing.T, ti uint16, pi uint8, data []byte) {
		typ := types[int(ti)%len(types)]
		preset := reg.PresetNames[int(pi)%len(reg.PresetNames)]
		if preset == "mainnet" && len(data) > 1<<16 {
			return
		}
		if fl := DifferentialBody(typ, preset, data); fl != nil {
			report.FuzzFail("C04", &Case{Type: typ, Preset: preset, Mode: "bytes", Hex: hex.EncodeToString(data), Note: "native fuzz input"}, fl)
			t.Fatalf("%s @%s: %s", typ, preset, fl.String())
		}
	})
}

// TestCorpus (re)writes the seed corpus when VERIF_C04_WRITE_CORPUS=1; otherwise it checks
// that every committed seed is still a valid encoding that the library round-trips.
func TestCorpus(t *testing.T) {
	if os.Getenv("VERIF_C04_WRITE_CORPUS") == "1" {
		os.MkdirAll(corpusDir(), 0o755)
		var sb strings.Builder
		for _, typ := range sortedTypes() {
			for _, pn := range []string{"custom-a", "custom-b", "custom-c", "minimal"} {
				p := reg.GetPreset(pn)
				var c *Case
				rapid.Check(quiet{t}, func(rt *rapid.T) {
					if c == nil {
						c = genValue(rt, typ, p, "typical")
					}
				})
				if c == nil || len(c.b) > 1<<14 {
					continue
				}
				fmt.Fprintf(&sb, "%s %s %s\n", typ, pn, c.Hex)
			}
		}
		if err := os.WriteFile(filepath.Join(corpusDir(), "seeds.txt"), []byte(sb.String()), 0o644); err != nil {
			t.Fatal(err)
		}
		return
	}
	seeds := loadSeeds()
	if len(seeds) == 0 {
		t.Skip("no corpus")
	}
	for _, s := range seeds {
		if fl := DifferentialBody(s.typ, s.preset, s.b); fl != nil {
			t.Errorf("seed %s@%s: %s", s.typ, s.preset, fl.String())
		}
	}
}

type quiet struct{ *testing.T }

func (quiet) Logf(string, ...any) {}
func (quiet) Log(...any)          {}
