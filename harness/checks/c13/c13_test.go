// C13 — genesis state construction equals the spec's initialize_beacon_state_from_eth1.
// Oracle: refspec.InitializeBeaconStateFromEth1 / IsValidGenesisState; deposit proofs from the
// harness's own incremental deposit tree.
package c13

import (
	"encoding/json"
	"fmt"
	"sort"
	"strings"
	"testing"

	kbls "github.com/kilic/bls12-381"
	blsu "github.com/protolambda/bls12-381-util"
	"github.com/protolambda/zrnt/eth2/beacon/common"
	"github.com/protolambda/zrnt/eth2/beacon/phase0"
	"github.com/protolambda/ztyp/view"
	"pgregory.net/rapid"

	"zrntverif/refspec"
	"zrntverif/report"
	"zrntverif/sim"
	"zrntverif/zb"
)

type Dep struct {
	Kind   string `json:"kind"`   // new | badpop | badkey | infkey | topup | topup-of-skipped | revive
	Key    int    `json:"key"`    // pool key selector (resolved at build time)
	Amount uint64 `json:"amount"` // Gwei
	Eth1   bool   `json:"eth1"`
	BadSig bool   `json:"bad_sig"` // top-ups: signature is junk (must not matter)
}

type Case struct {
	Config              sim.ConfigCase `json:"config"`
	Eth1Seed            uint64         `json:"eth1_seed"`
	Eth1Time            uint64         `json:"eth1_time"`
	Deps                []Dep          `json:"deps"`
	CorruptProofAt      int            `json:"corrupt_proof_at"`       // -1 none
	MinGenesisTimeDelta int64          `json:"min_genesis_time_delta"` // MIN_GENESIS_TIME = genesis_time + delta
	MinActiveDelta      int64          `json:"min_active_delta"`       // MIN_GENESIS_ACTIVE_VALIDATOR_COUNT = active + delta
	// absolute values from the whole 64-bit range instead (2^31, 2^32, 2^63 ± …, 2^64-1: "never" settings)
	MinActiveAbs *uint64 `json:"min_active_abs,omitempty"`
	MinTimeAbs   *uint64 `json:"min_time_abs,omitempty"`
	KickStart           bool           `json:"kickstart"`
	KickStartSigs       bool           `json:"kickstart_sigs,omitempty"` // KickStartStateWithSignatures (secret keys given)
	WrongKeyAt          int            `json:"wrong_key_at,omitempty"`   // 1-based entry whose secret key belongs to another validator (0 = none)
}

var sigMemo = map[[32]byte][96]byte{}

func signDeposit(sp *refspec.Spec, d *refspec.DepositData, signer uint64) {
	msg := sp.HTR("DepositMessage", d.MessageV())
	sr := sp.ComputeSigningRoot(msg, sp.ComputeDomain(refspec.DOMAIN_DEPOSIT, sp.P.ForkVersions[refspec.Phase0], refspec.Root{}))
	k := refspec.Hash(append(sr[:], byte(signer), byte(signer>>8), byte(signer>>16)))
	if s, ok := sigMemo[k]; ok {
		d.Signature = s
		return
	}
	d.Signature = refspec.Sign(signer, sr)
	sigMemo[k] = d.Signature
}

func wcFor(k uint64, eth1 bool) (wc [32]byte) {
	if eth1 {
		wc[0] = 1
		wc[31] = byte(k)
		wc[30] = byte(k >> 8)
		return
	}
	pk := refspec.KeyPubkey(sim.WithdrawalKeyBase + k)
	h := refspec.Hash(pk[:])
	copy(wc[:], h[:])
	wc[0] = 0
	return
}

// build materialises the deposit list (reference structs) and the branch kinds exercised.
func build(sp *refspec.Spec, c *Case) ([]refspec.Deposit, []string) {
	var datas []refspec.DepositData
	kinds := map[string]bool{}
	var validKeys, skippedKeys []uint64
	next := uint64(0)
	for _, d := range c.Deps {
		var dd refspec.DepositData
		dd.Amount = d.Amount
		kind := d.Kind
		if c.KickStart && (kind == "badkey" || kind == "infkey") {
			kind = "new" // kick-start input is "minimal validator data": keys are real keys
		}
		switch kind {
		case "topup":
			if len(validKeys) == 0 {
				kind = "new"
			}
		case "topup-of-skipped", "revive":
			if len(skippedKeys) == 0 {
				kind = "badpop"
			}
		}
		switch kind {
		case "new":
			k := next
			next++
			dd.Pubkey, dd.WithdrawalCredentials = refspec.KeyPubkey(k), wcFor(k, d.Eth1)
			signDeposit(sp, &dd, k)
			validKeys = append(validKeys, k)
		case "badpop":
			k := next
			next++
			dd.Pubkey, dd.WithdrawalCredentials = refspec.KeyPubkey(k), wcFor(k, d.Eth1)
			signDeposit(sp, &dd, k+5000)
			skippedKeys = append(skippedKeys, k)
		case "badkey":
			for i := range dd.Pubkey {
				dd.Pubkey[i] = 0xff
			}
			dd.Pubkey[1] = byte(next)
			dd.WithdrawalCredentials = wcFor(next, d.Eth1)
			signDeposit(sp, &dd, next)
			next++
		case "infkey":
			dd.Pubkey[0] = 0xc0 // compressed point at infinity: decodes, but is not a valid key
			dd.WithdrawalCredentials = wcFor(next, d.Eth1)
			signDeposit(sp, &dd, next)
			next++
		case "topup":
			k := validKeys[d.Key%len(validKeys)]
			dd.Pubkey, dd.WithdrawalCredentials = refspec.KeyPubkey(k), wcFor(k, d.Eth1)
			if d.BadSig {
				dd.Signature[0] = 0x12
			} else {
				signDeposit(sp, &dd, k)
			}
		case "topup-of-skipped":
			// same key as an earlier skipped deposit, again with a bad signature: still no validator
			k := skippedKeys[d.Key%len(skippedKeys)]
			dd.Pubkey, dd.WithdrawalCredentials = refspec.KeyPubkey(k), wcFor(k, d.Eth1)
			signDeposit(sp, &dd, k+5000)
		case "revive":
			// a key whose first deposit was skipped now deposits validly: becomes a validator here
			i := d.Key % len(skippedKeys)
			k := skippedKeys[i]
			skippedKeys = append(skippedKeys[:i], skippedKeys[i+1:]...)
			dd.Pubkey, dd.WithdrawalCredentials = refspec.KeyPubkey(k), wcFor(k, d.Eth1)
			signDeposit(sp, &dd, k)
			validKeys = append(validKeys, k)
		}
		kinds[kind] = true
		datas = append(datas, dd)
	}
	leaves := make([]refspec.Root, len(datas))
	for i := range datas {
		leaves[i] = sp.HTR("DepositData", datas[i].V())
	}
	deps := make([]refspec.Deposit, len(datas))
	for i := range datas {
		deps[i] = refspec.Deposit{Proof: refspec.DepositProof(leaves, i+1, i), Data: datas[i]}
	}
	if c.CorruptProofAt >= 0 && c.CorruptProofAt < len(deps) {
		deps[c.CorruptProofAt].Proof[c.CorruptProofAt%32][3] ^= 0x40
		kinds["corrupt-proof"] = true
	}
	ks := make([]string, 0, len(kinds))
	for k := range kinds {
		ks = append(ks, k)
	}
	sort.Strings(ks)
	return deps, ks
}

func toLibDeposits(deps []refspec.Deposit) []common.Deposit {
	out := make([]common.Deposit, len(deps))
	for i := range deps {
		for j := range deps[i].Proof {
			out[i].Proof[j] = common.Root(deps[i].Proof[j])
		}
		out[i].Data = common.DepositData{Pubkey: deps[i].Data.Pubkey, WithdrawalCredentials: deps[i].Data.WithdrawalCredentials,
			Amount: common.Gwei(deps[i].Data.Amount), Signature: deps[i].Data.Signature}
	}
	return out
}

func run(r *report.Run, c *Case) *report.Failure {
	cfg := c.Config.Build()
	sp := refspec.NewSpec(cfg)
	spec := zb.ToSpec(cfg)
	deps, kinds := build(sp, c)
	pr := refspec.Hash([]byte(fmt.Sprint("eth1", c.Eth1Seed)))
	family := c.Config.Family

	if c.KickStart {
		// KickStartState == the reference run with every deposit treated as valid and the given genesis time
		var vals []phase0.KickstartValidatorData
		placeholder := (*blsu.Signature)(kbls.NewG2().One()).Serialize()
		var rdeps []refspec.Deposit
		for i := range deps {
			vals = append(vals, phase0.KickstartValidatorData{Pubkey: deps[i].Data.Pubkey, WithdrawalCredentials: deps[i].Data.WithdrawalCredentials, Balance: common.Gwei(deps[i].Data.Amount)})
			d := deps[i]
			d.Data.Signature = placeholder
			if c.KickStartSigs {
				// the function signs every entry's deposit message with the entry's own key
				for k := uint64(0); k <= uint64(len(deps)); k++ {
					if refspec.KeyPubkey(k) == d.Data.Pubkey {
						signDeposit(sp, &d.Data, k)
					}
				}
			}
			d.Proof = [33]refspec.Root{}
			rdeps = append(rdeps, d)
		}
		tsp := refspec.NewSpec(cfg)
		tsp.TrustDeposits = true
		ref, rerr := tsp.InitializeBeaconStateFromEth1(pr, 0, rdeps)
		if rerr == nil {
			ref.GenesisTime = c.Eth1Time
		}
		var st *phase0.BeaconStateView
		var epc *common.EpochsContext
		if c.KickStartSigs {
			// KickStartStateWithSignatures: same state as KickStartState (doc: "directly from a sequence of minimal
			// validator data"), the i-th secret key must be the one of the i-th public key, otherwise an error.
			byPub := map[[48]byte]uint64{}
			for k := uint64(0); k <= uint64(len(deps)); k++ {
				byPub[refspec.KeyPubkey(k)] = k
			}
			keys := make([][32]byte, len(vals))
			for i := range vals {
				k, ok := byPub[[48]byte(vals[i].Pubkey)]
				if !ok {
					return report.Failf("harness", "kick-start key of entry %d not in the key pool", i)
				}
				if c.WrongKeyAt == i+1 {
					k += 7001
				}
				keys[i] = refspec.KeySecretBytes(k)
			}
			lerr, panicked := sim.Guard(func() error {
				var err error
				st, epc, err = phase0.KickStartStateWithSignatures(spec, common.Root(pr), common.Timestamp(c.Eth1Time), vals, keys)
				return err
			})
			if c.WrongKeyAt >= 1 && c.WrongKeyAt <= len(vals) {
				r.Eval(1)
				if panicked {
					return report.Failf("KickStartStateWithSignatures/panic", "wrong secret key at entry %d: %v", c.WrongKeyAt-1, lerr)
				}
				if lerr == nil {
					return report.Failf("KickStartStateWithSignatures/accepted-wrong-key", "entry %d was given the secret key of another validator and a state was returned", c.WrongKeyAt-1)
				}
				r.Class("kickstart-sigs:wrong-key->error")
				r.NonTrivial(family + "|KickStartStateWithSignatures|wrong-key")
				return nil
			}
			return judge(r, c, sp, spec, "KickStartStateWithSignatures", ref, rerr, st, epc, lerr, panicked, kinds, family)
		}
		lerr, panicked := sim.Guard(func() error {
			var err error
			st, epc, err = phase0.KickStartState(spec, common.Root(pr), common.Timestamp(c.Eth1Time), vals)
			return err
		})
		return judge(r, c, sp, spec, "KickStartState", ref, rerr, st, epc, lerr, panicked, kinds, family)
	}

	ref, rerr := sp.InitializeBeaconStateFromEth1(pr, c.Eth1Time, deps)
	var st *phase0.BeaconStateView
	var epc *common.EpochsContext
	ldeps := toLibDeposits(deps)
	lerr, panicked := sim.Guard(func() error {
		var err error
		st, epc, err = phase0.GenesisFromEth1(spec, common.Root(pr), common.Timestamp(c.Eth1Time), ldeps, false)
		return err
	})
	if f := judge(r, c, sp, spec, "GenesisFromEth1", ref, rerr, st, epc, lerr, panicked, kinds, family); f != nil {
		return f
	}
	if rerr == nil && lerr == nil {
		// validity predicate with parameters drawn around the produced values
		active := int64(len(sp.ActiveIndices(ref, 0)))
		cfg2 := cfg.Clone()
		mgt := int64(ref.GenesisTime) + c.MinGenesisTimeDelta
		if mgt < 0 {
			mgt = 0
		}
		mac := active + c.MinActiveDelta
		if mac < 0 {
			mac = 0
		}
		umgt, umac := uint64(mgt), uint64(mac)
		if c.MinTimeAbs != nil {
			umgt = *c.MinTimeAbs
		}
		if c.MinActiveAbs != nil {
			umac = *c.MinActiveAbs
			r.Class("valid-genesis:min-active-count-from-the-whole-64-bit-range")
			r.Hit("valid-genesis:min-active-count-from-the-whole-64-bit-range")
		}
		cfg2.U["MIN_GENESIS_TIME"], cfg2.U["MIN_GENESIS_ACTIVE_VALIDATOR_COUNT"] = umgt, umac
		cfg2.Name = "custom" // the predicate's parameters are set by name on the library side too
		want := refspec.NewSpec(cfg2).IsValidGenesisState(ref)
		spec2 := *spec
		spec2.MIN_GENESIS_TIME = common.Timestamp(umgt)
		spec2.MIN_GENESIS_ACTIVE_VALIDATOR_COUNT = view.Uint64View(umac)
		got, err := phase0.IsValidGenesisState(&spec2, st)
		if err != nil {
			return report.Failf("IsValidGenesisState/error", "%v", err)
		}
		if got != want {
			return report.Failf("IsValidGenesisState/wrong", "IsValidGenesisState = %v, spec says %v (genesis_time %d vs MIN %d; active %d vs MIN %d)", got, want, ref.GenesisTime, umgt, active, umac)
		}
		r.Class(fmt.Sprintf("valid-genesis=%v", want))
	}
	return nil
}

func judge(r *report.Run, c *Case, sp *refspec.Spec, spec *common.Spec, what string, ref *refspec.State, rerr error,
	st *phase0.BeaconStateView, epc *common.EpochsContext, lerr error, panicked bool, kinds []string, family string) *report.Failure {
	r.Eval(1)
	desc := fmt.Sprintf("%s(%d deposits, kinds %v, %s)", what, len(c.Deps), kinds, family)
	if panicked {
		return report.Failf(what+"/panic", "%s: %v", desc, lerr)
	}
	if rerr != nil {
		// the spec refuses the list (bad Merkle proof): the library must return an error
		if lerr == nil {
			return report.Failf(what+"/accepted-invalid", "%s: reference rejects (%v) but the library returned a state", desc, rerr)
		}
		r.Class("both-reject")
		r.NonTrivial(family + "|reject|" + strings.Join(kinds, ","))
		return nil
	}
	nvals := len(ref.Validators)
	nactive := len(sp.ActiveIndices(ref, 0))
	if uint64(nvals) < sp.P.SLOTS_PER_EPOCH || nactive == 0 {
		// documented: not enough validators for a full-featured state -> an error, never a panic or a state
		if lerr == nil {
			return report.Failf(what+"/state-for-too-few-validators", "%s: %d validators (%d active) with SLOTS_PER_EPOCH=%d: the library returned a state instead of the documented error", desc, nvals, nactive, sp.P.SLOTS_PER_EPOCH)
		}
		r.Class("too-few-validators->error")
		return nil
	}
	if lerr != nil {
		return report.Failf(what+"/error", "%s: library fails where the spec produces a state: %v", desc, lerr)
	}
	if d := sim.CompareStates(sp, ref, st); d != "" {
		return report.Failf(what+"/diverge:"+diffClass(d), "%s: %s", desc, trunc(d))
	}
	fresh, err := common.NewEpochsContext(spec, st)
	if err != nil {
		return report.Failf(what+"/epc", "NewEpochsContext on the genesis state: %v", err)
	}
	pks, _ := sim.RegistryPubkeys(st)
	if d := sim.CompareEpc(epc, fresh, len(pks), pks); d != "" {
		return report.Failf(what+"/epc-differs", "%s: returned EpochsContext != NewEpochsContext(state): %s", desc, trunc(d))
	}
	skipped := len(c.Deps) - nvals
	nt := false
	for _, k := range kinds {
		if k != "new" {
			nt = true
		}
	}
	if nactive < nvals {
		nt = true
		kinds = append(kinds, "not-all-active")
	}
	_ = skipped
	r.Class(what + ":state-produced")
	r.Hit("entry:" + what)
	if c.Config.ForkEpochs[0] == 0 {
		r.Hit("schedule:altair-at-epoch-0")
	}
	for _, k := range kinds {
		r.Hit("branch:" + k)
	}
	if nt {
		r.NonTrivial(family + "|" + what + "|" + strings.Join(kinds, ","))
		r.Sample(what+"/"+strings.Join(kinds, ","), func() any {
			return map[string]any{"what": what, "family": family, "deposits": len(c.Deps), "validators": nvals, "active": nactive, "kinds": kinds, "first_deps": firstN(c.Deps, 6)}
		})
	}
	return nil
}

func firstN(d []Dep, n int) []Dep {
	if len(d) > n {
		return d[:n]
	}
	return d
}

func trunc(s string) string {
	if len(s) > 700 {
		return s[:700] + "…"
	}
	return s
}

func diffClass(d string) string {
	i := strings.Index(d, ": .")
	if i < 0 {
		return "unknown"
	}
	rest := d[i+3:]
	end := strings.IndexAny(rest, ".[: ")
	if end < 0 {
		end = len(rest)
	}
	return rest[:end]
}

var amounts = []uint64{32_000_000_000, 32_000_000_000, 32_000_000_000, 31_999_999_999, 32_000_000_001, 31_500_000_000, 1_000_000_000, 500_000_000, 64_000_000_000, 32_123_456_789, 16_000_000_000}

func genCase(t *rapid.T) *Case {
	c := &Case{CorruptProofAt: -1}
	cc := sim.GenConfig(t, 50, true, 1)
	cc.ForkEpochs = [4]uint64{sim.Far, sim.Far, sim.Far, sim.Far}
	// the fork schedule is not an input of initialize_beacon_state_from_eth1 (genesis is a phase0 state under
	// GENESIS_FORK_VERSION whatever follows), so it is varied too: later forks scheduled at epoch 0, 1, ... or never
	if rapid.IntRange(0, 2).Draw(t, "schedule") == 0 {
		k := rapid.IntRange(1, 4).Draw(t, "forks_scheduled")
		e := uint64(0)
		for i := 0; i < k; i++ {
			e += rapid.SampledFrom([]uint64{0, 0, 1, 2}).Draw(t, "fork_step")
			cc.ForkEpochs[i] = e
		}
	}
	c.Config = *cc
	spe := 8
	if cc.Family == "mainnet" {
		spe = 32
	} else if cc.Family == "custom" {
		spe = int(cc.Override["SLOTS_PER_EPOCH"])
	}
	var n int
	switch rapid.IntRange(0, 5).Draw(t, "n_kind") {
	case 0:
		n = rapid.IntRange(0, 3).Draw(t, "n")
	case 1:
		n = spe + rapid.IntRange(-1, 2).Draw(t, "n_d")
	case 2:
		n = rapid.IntRange(0, 140).Draw(t, "n")
	default:
		n = rapid.IntRange(spe, spe+24).Draw(t, "n")
	}
	c.Eth1Seed = rapid.Uint64().Draw(t, "eth1_seed")
	c.Eth1Time = rapid.Uint64Range(0, 1<<40).Draw(t, "eth1_time")
	profile := rapid.SampledFrom([]string{"clean", "mixed", "mixed", "hostile"}).Draw(t, "profile")
	for i := 0; i < n; i++ {
		kind := "new"
		switch profile {
		case "mixed":
			kind = rapid.SampledFrom([]string{"new", "new", "new", "new", "topup", "badpop", "badkey", "infkey", "topup-of-skipped", "revive"}).Draw(t, "kind")
		case "hostile":
			kind = rapid.SampledFrom([]string{"new", "topup", "badpop", "badkey", "infkey", "topup-of-skipped", "revive", "revive"}).Draw(t, "kind")
		}
		c.Deps = append(c.Deps, Dep{Kind: kind, Key: rapid.IntRange(0, 1000).Draw(t, "key"), Amount: rapid.SampledFrom(amounts).Draw(t, "amount"),
			Eth1: rapid.Bool().Draw(t, "eth1"), BadSig: rapid.Bool().Draw(t, "bad_sig")})
	}
	if n > 0 && rapid.IntRange(0, 9).Draw(t, "corrupt") == 0 {
		c.CorruptProofAt = rapid.IntRange(0, n-1).Draw(t, "corrupt_at")
	}
	c.MinGenesisTimeDelta = int64(rapid.IntRange(-2, 2).Draw(t, "mgt_d"))
	c.MinActiveDelta = int64(rapid.IntRange(-2, 2).Draw(t, "mac_d"))
	if rapid.IntRange(0, 3).Draw(t, "mac_abs") == 0 {
		v := rapid.SampledFrom([]uint64{1 << 31, 1<<32 - 1, 1 << 32, 1<<63 - 1, 1 << 63, 1<<63 + 10, ^uint64(0) - 1, ^uint64(0), 0}).Draw(t, "mac_abs_v")
		c.MinActiveAbs = &v
	}
	if rapid.IntRange(0, 5).Draw(t, "mgt_abs") == 0 {
		v := rapid.SampledFrom([]uint64{0, 1 << 63, ^uint64(0)}).Draw(t, "mgt_abs_v")
		c.MinTimeAbs = &v
	}
	ks := rapid.IntRange(0, 9).Draw(t, "kickstart")
	c.KickStart = ks <= 2
	c.KickStartSigs = ks == 2
	if c.KickStartSigs && n > 0 && rapid.IntRange(0, 5).Draw(t, "wrongkey") == 0 {
		c.WrongKeyAt = rapid.IntRange(1, n).Draw(t, "wrong_key_at")
	}
	return c
}

func TestCheck(t *testing.T) {
	r := report.Begin("C13")
	defer r.Finish()
	r.Rule("generated (preset, eth1 hash/time, ordered deposit list) cases: valid deposits, bad proof-of-possession, undecodable and infinity pubkeys, top-ups (good and junk signatures), repeats of skipped keys, a skipped key that later deposits validly, amounts below/at/above MAX_EFFECTIVE_BALANCE and off-increment, corrupted proofs; proofs from the harness's own deposit tree; GenesisFromEth1, KickStartState and KickStartStateWithSignatures (right keys: same state; one wrong key: error) against refspec.initialize_beacon_state_from_eth1, returned EpochsContext against NewEpochsContext, IsValidGenesisState with MIN_GENESIS_* drawn around the produced values or from the whole 64-bit range (2^31 … 2^63 … 2^64-1). non-trivial = >=1 skipped deposit or top-up or non-activated validator (or a rejected list); distinct key = (preset family, entry point, branch-kind set)")
	r.Assume("refspec/refssz are the spec (harness transcription)", "BLS library trusted on both sides", "lists producing fewer than SLOTS_PER_EPOCH validators or no active validator: the documented outcome is an error")
	replay := func(raw json.RawMessage) *report.Failure {
		var c Case
		if err := json.Unmarshal(raw, &c); err != nil {
			return report.Failf("harness", "bad case: %v", err)
		}
		return run(r, &c)
	}
	r.Regress(replay)
	if r.Replay != "" {
		return
	}
	r.Mandatory("valid-genesis:min-active-count-from-the-whole-64-bit-range", "schedule:altair-at-epoch-0", "entry:GenesisFromEth1", "entry:KickStartState", "entry:KickStartStateWithSignatures", "branch:new", "branch:badpop", "branch:badkey", "branch:infkey", "branch:topup", "branch:revive", "branch:topup-of-skipped", "branch:not-all-active")
	r.Search(t, "lists", 0, r.N(2400, 40000), func(rt *rapid.T) (any, *report.Failure) {
		c := genCase(rt)
		return c, run(r, c)
	})
}
