// C14 — built-in configurations are the spec's; fork lookups agree for every epoch.
// (a) generated fork schedules x epochs on both sides of every boundary: Spec.ForkVersion,
//
//	ForkDecoder.ForkDigest / BlockAllocator, envelope round-trip and signature check, against
//	refspec.compute_fork_version / compute_fork_digest / compute_domain;
//
// (b) short chains advanced across each boundary: state type and Fork() record name the same fork;
// (c) configs.Mainnet / configs.Minimal and the spec-level constants against the pinned table
//
//	(enumerated completely).
package c14

import (
	"bytes"
	"context"
	"encoding/hex"
	"encoding/json"
	"fmt"
	"reflect"
	"sort"
	"strconv"
	"strings"
	"testing"

	"github.com/protolambda/zrnt/eth2/beacon"
	"github.com/protolambda/zrnt/eth2/beacon/altair"
	"github.com/protolambda/zrnt/eth2/beacon/bellatrix"
	"github.com/protolambda/zrnt/eth2/beacon/capella"
	"github.com/protolambda/zrnt/eth2/beacon/common"
	"github.com/protolambda/zrnt/eth2/beacon/deneb"
	"github.com/protolambda/zrnt/eth2/beacon/electra"
	"github.com/protolambda/zrnt/eth2/beacon/phase0"
	"github.com/protolambda/zrnt/eth2/configs"
	"github.com/protolambda/ztyp/codec"
	"github.com/protolambda/ztyp/tree"
	"pgregory.net/rapid"

	"zrntverif/refspec"
	"zrntverif/refssz"
	"zrntverif/report"
	"zrntverif/sim"
	"zrntverif/zb"
)

const far = refspec.FarFutureEpoch

var forkNames = []string{"phase0", "altair", "bellatrix", "capella", "deneb", "electra", "fulu"}
var versionNames = []string{"GENESIS_FORK_VERSION", "ALTAIR_FORK_VERSION", "BELLATRIX_FORK_VERSION", "CAPELLA_FORK_VERSION", "DENEB_FORK_VERSION", "ELECTRA_FORK_VERSION", "FULU_FORK_VERSION"}
var epochNames = []string{"", "ALTAIR_FORK_EPOCH", "BELLATRIX_FORK_EPOCH", "CAPELLA_FORK_EPOCH", "DENEB_FORK_EPOCH", "ELECTRA_FORK_EPOCH", "FULU_FORK_EPOCH"}

type LookupCase struct {
	SPE      uint64    `json:"slots_per_epoch"`
	Epochs   [6]uint64 `json:"fork_epochs"` // altair..fulu
	Versions [7]string `json:"versions"`
	GVR      string    `json:"genesis_validators_root"`
	Query    uint64    `json:"query_epoch"`
	SlotOff  uint64    `json:"slot_offset"`
	Seed     uint64    `json:"seed"`
	// DerivedFrom: the configuration under test is a by-value copy of a Spec with THIS schedule that was
	// queried before the copy, with the fork epochs then overwritten (how every custom configuration is
	// made: `c := *configs.Minimal; c.ALTAIR_FORK_EPOCH = …`). nil: built directly.
	DerivedFrom *[6]uint64 `json:"derived_from,omitempty"`
}

func (c *LookupCase) cfg() *refspec.Config {
	cfg := refspec.Official("minimal").Clone()
	cfg.Name = "custom"
	cfg.U["SLOTS_PER_EPOCH"] = c.SPE
	for i := 1; i <= 6; i++ {
		cfg.U[epochNames[i]] = c.Epochs[i-1]
	}
	for i := 0; i < 7; i++ {
		cfg.V[versionNames[i]] = c.Versions[i]
	}
	// small limits so that a random block is small
	cfg.U["MAX_ATTESTATIONS"], cfg.U["MAX_DEPOSITS"], cfg.U["MAX_VOLUNTARY_EXITS"] = 2, 2, 2
	cfg.U["MAX_PROPOSER_SLASHINGS"], cfg.U["MAX_ATTESTER_SLASHINGS"] = 1, 1
	cfg.U["MAX_VALIDATORS_PER_COMMITTEE"] = 17 // not a multiple of 8: a full bitlist at limit%8==0 is refused by the ztyp decoder (C04 finding)
	cfg.U["MAX_COMMITTEES_PER_SLOT"] = 4
	cfg.U["SYNC_COMMITTEE_SIZE"] = 8
	cfg.U["MAX_TRANSACTIONS_PER_PAYLOAD"], cfg.U["MAX_BYTES_PER_TRANSACTION"] = 2, 40
	cfg.U["MAX_WITHDRAWALS_PER_PAYLOAD"], cfg.U["MAX_BLS_TO_EXECUTION_CHANGES"], cfg.U["MAX_BLOB_COMMITMENTS_PER_BLOCK"] = 2, 2, 2
	cfg.U["MAX_ATTESTATIONS_ELECTRA"], cfg.U["MAX_ATTESTER_SLASHINGS_ELECTRA"] = 2, 1
	cfg.U["MAX_DEPOSIT_REQUESTS_PER_PAYLOAD"], cfg.U["MAX_WITHDRAWAL_REQUESTS_PER_PAYLOAD"], cfg.U["MAX_CONSOLIDATION_REQUESTS_PER_PAYLOAD"] = 2, 2, 2
	cfg.Invalidate()
	return cfg
}

// refForkAt: the spec's compute_fork_version generalised to the seven configured forks: the
// latest fork whose epoch is <= e.
func refForkAt(c *LookupCase, e uint64) int {
	f := 0
	for i := 1; i <= 6; i++ {
		if e >= c.Epochs[i-1] {
			f = i
		}
	}
	return f
}

func ver(s string) (v [4]byte) {
	b, _ := hex.DecodeString(s)
	copy(v[:], b)
	return
}

func blockTypeName(o any) string {
	switch o.(type) {
	case *phase0.SignedBeaconBlock:
		return "phase0"
	case *altair.SignedBeaconBlock:
		return "altair"
	case *bellatrix.SignedBeaconBlock:
		return "bellatrix"
	case *capella.SignedBeaconBlock:
		return "capella"
	case *deneb.SignedBeaconBlock:
		return "deneb"
	case *electra.SignedBeaconBlock:
		return "electra"
	}
	return fmt.Sprintf("%T", o)
}

func runLookup(r *report.Run, c *LookupCase) (f *report.Failure) {
	defer func() {
		if p := recover(); p != nil {
			f = report.Failf("lookup/panic", "%v", p)
		}
	}()
	cfg := c.cfg()
	sp := refspec.NewSpec(cfg)
	spec := zb.ToSpec(cfg)
	var gvr refspec.Root
	gb, _ := hex.DecodeString(c.GVR)
	copy(gvr[:], gb)
	if c.DerivedFrom != nil {
		bc := *c
		bc.Epochs = *c.DerivedFrom
		base := zb.ToSpec(bc.cfg())
		// use the base configuration first, on both sides of its boundaries and of the derived ones
		bdec := beacon.NewForkDecoder(base, common.Root(gvr))
		for _, be := range append(append([]uint64{0, c.Query}, c.DerivedFrom[:]...), c.Epochs[:]...) {
			if be < (^uint64(0))/c.SPE-1 {
				base.ForkVersion(common.Slot(be * c.SPE))
			}
			bdec.ForkDigest(common.Epoch(be))
		}
		d := *base
		d.ALTAIR_FORK_EPOCH, d.BELLATRIX_FORK_EPOCH, d.CAPELLA_FORK_EPOCH = common.Epoch(c.Epochs[0]), common.Epoch(c.Epochs[1]), common.Epoch(c.Epochs[2])
		d.DENEB_FORK_EPOCH, d.ELECTRA_FORK_EPOCH, d.FULU_FORK_EPOCH = common.Epoch(c.Epochs[3]), common.Epoch(c.Epochs[4]), common.Epoch(c.Epochs[5])
		spec = &d
		r.Class("lookup:configuration-derived-from-a-used-one")
		r.Hit("lookup:configuration-derived-from-a-used-one")
	}
	e := c.Query
	slot := e*c.SPE + c.SlotOff%c.SPE
	if e == far {
		return nil // FAR_FUTURE_EPOCH itself is "never": no fork is defined to be active there
	}
	// epochs whose start slot does not fit 64 bits exist for the epoch-keyed lookups only
	slotOK := e <= (^uint64(0))/c.SPE-1
	wantFork := refForkAt(c, e)
	wantVersion := ver(c.Versions[wantFork])
	r.Eval(1)

	// 1. Spec.ForkVersion
	if slotOK {
		if got := spec.ForkVersion(common.Slot(slot)); [4]byte(got) != wantVersion {
			return report.Failf("ForkVersion/wrong", "schedule %v: Spec.ForkVersion(slot %d, epoch %d) = %x, compute_fork_version says %x (%s)", c.Epochs, slot, e, [4]byte(got), wantVersion, forkNames[wantFork])
		}
	}
	// 2. ForkDecoder.ForkDigest
	dec := beacon.NewForkDecoder(spec, common.Root(gvr))
	wantDigest := sp.ComputeForkDigest(wantVersion, gvr)
	gotDigest := dec.ForkDigest(common.Epoch(e))
	if [4]byte(gotDigest) != wantDigest {
		return report.Failf("ForkDigest/wrong", "schedule %v: ForkDecoder.ForkDigest(epoch %d) = %x, compute_fork_digest(%s version) = %x", c.Epochs, e, gotDigest, forkNames[wantFork], wantDigest)
	}
	// 3. BlockAllocator (the library exports block types up to electra)
	if wantFork <= 5 {
		alloc, err := dec.BlockAllocator(gotDigest)
		if err != nil {
			return report.Failf("BlockAllocator/error", "digest of %s: %v", forkNames[wantFork], err)
		}
		if got := blockTypeName(alloc()); got != forkNames[wantFork] {
			return report.Failf("BlockAllocator/wrong-type", "schedule %v epoch %d: allocator gives a %s block, the fork is %s", c.Epochs, e, got, forkNames[wantFork])
		}
	}
	// 3b. a digest that belongs to no configured fork (here: the right version under another genesis root) has no block type
	{
		other := gvr
		other[0] ^= 0x80
		unk := sp.ComputeForkDigest(wantVersion, other)
		known := false
		for i := 0; i < 7; i++ {
			if sp.ComputeForkDigest(ver(c.Versions[i]), gvr) == unk {
				known = true
			}
		}
		if !known {
			if _, err := dec.BlockAllocator(common.ForkDigest(unk)); err == nil {
				return report.Failf("BlockAllocator/unknown-digest-accepted", "schedule %v: digest %x (another genesis validators root) is not one of the configured forks' digests, yet an allocator was returned", c.Epochs, unk)
			}
			r.Class("lookup:unknown-digest-refused")
		}
	}
	if !slotOK {
		r.Class("lookup-epoch-beyond-slot-range:" + forkNames[wantFork])
		r.Hit("lookup:epoch-beyond-slot-range")
		r.NonTrivial(fmt.Sprintf("%s|%s|beyond-slot-range", shape(c), forkNames[wantFork]))
		return nil
	}
	// 4. envelope round trip and signature, phase0..deneb blocks (electra: round trip only)
	if wantFork <= 5 {
		typeName := forkNames[wantFork] + ".SignedBeaconBlock"
		ty := sp.T(typeName)
		var val any
		val = randomBlock(ty, c.Seed)
		msg := val.([]any)[0].([]any)
		msg[0] = slot
		proposer := uint64(3)
		msg[1] = proposer
		msgType := sp.T(forkNames[wantFork] + ".BeaconBlock")
		blockRoot := refssz.HashTreeRoot(msgType, val.([]any)[0])
		signKey := uint64(11)
		sign := func(v [4]byte) [96]byte {
			return refspec.Sign(signKey, sp.ComputeSigningRoot(blockRoot, sp.ComputeDomain(refspec.DOMAIN_BEACON_PROPOSER, v, gvr)))
		}
		sig := sign(wantVersion)
		val.([]any)[1] = sig[:]
		b := refssz.Serialize(ty, val)
		alloc, _ := dec.BlockAllocator(gotDigest)
		blk := alloc()
		if err := blk.Deserialize(spec, codec.NewDecodingReader(bytes.NewReader(b), uint64(len(b)))); err != nil {
			return report.Failf("harness", "library cannot decode a reference-encoded %s: %v", typeName, err)
		}
		env := blk.Envelope(spec, gotDigest)
		if [32]byte(env.BlockRoot) != blockRoot {
			return report.Failf("Envelope/root", "%s envelope BlockRoot %x != hash_tree_root(message) %x", forkNames[wantFork], env.BlockRoot, blockRoot)
		}
		if uint64(env.Slot) != slot || uint64(env.ProposerIndex) != proposer || [96]byte(env.Signature) != sig {
			return report.Failf("Envelope/fields", "%s envelope header/signature fields differ from the block", forkNames[wantFork])
		}
		back, err := beacon.EnvelopeToSignedBeaconBlock(env)
		if err != nil {
			return report.Failf("EnvelopeToSignedBeaconBlock/error", "%s: %v", forkNames[wantFork], err)
		}
		bb, err := zb.SerializeSpecObj(spec, back)
		if err != nil {
			return report.Failf("EnvelopeToSignedBeaconBlock/error", "%s: %v", forkNames[wantFork], err)
		}
		if !bytes.Equal(bb, b) {
			return report.Failf("EnvelopeToSignedBeaconBlock/not-identity", "%s: block -> envelope -> block changes the encoding: %s", forkNames[wantFork], refssz.DiffBytes(ty, bb, b))
		}
		if got := blockTypeName(back); got != forkNames[wantFork] {
			return report.Failf("EnvelopeToSignedBeaconBlock/wrong-type", "got %s for %s", got, forkNames[wantFork])
		}
		bodyRoot := refssz.HashTreeRoot(sp.T(forkNames[wantFork]+".BeaconBlockBody"), msg[4])
		if [32]byte(env.BodyRoot) != bodyRoot && env.BodyRoot != (common.Root{}) {
			return report.Failf("Envelope/body-root", "%s envelope BodyRoot differs from hash_tree_root(body)", forkNames[wantFork])
		}
		_ = tree.GetHashFn
		// 4b. the envelope of an object is taken again after its body changed (a proposer drafting a block, a
		// recycled block object): it must describe the body as it is now, not as it was at the first call
		if gf := reflect.ValueOf(blk).Elem().FieldByName("Message").FieldByName("Body").FieldByName("Graffiti"); gf.IsValid() && gf.CanSet() && gf.Len() == 32 {
			body2 := append([]any{}, msg[4].([]any)...)
			g2 := make([]byte, 32)
			for i := range g2 {
				g2[i] = byte(c.Seed>>uint(i%8*8)) ^ byte(i) ^ 0x5a
				gf.Index(i).SetUint(uint64(g2[i]))
			}
			body2[2] = g2
			msg2 := append([]any{}, msg...)
			msg2[4] = body2
			wantBody := refssz.HashTreeRoot(sp.T(forkNames[wantFork]+".BeaconBlockBody"), body2)
			wantBlock := refssz.HashTreeRoot(msgType, msg2)
			env3 := blk.Envelope(spec, gotDigest)
			if [32]byte(env3.BlockRoot) != wantBlock || ([32]byte(env3.BodyRoot) != wantBody && env3.BodyRoot != (common.Root{})) {
				return report.Failf("Envelope/stale-after-body-change", "%s: after changing the graffiti of a block whose envelope had been taken before, Envelope() gives block root %x / body root %x, the block now has %x / %x", forkNames[wantFork], env3.BlockRoot, env3.BodyRoot, wantBlock, wantBody)
			}
			r.Class("envelope-retaken-after-body-change")
		}
		// signature: the version the slot implies verifies, every other configured version does not
		pk := refspec.KeyPubkey(signKey)
		cached := &common.CachedPubkey{Compressed: common.BLSPubkey(pk)}
		if !env.VerifySignature(spec, common.Root(gvr), common.ValidatorIndex(proposer), cached) {
			return report.Failf("VerifySignature/rejects-right-version", "schedule %v: a %s block at slot %d (epoch %d) signed under the version its slot implies (%x) does not verify through the envelope", c.Epochs, forkNames[wantFork], slot, e, wantVersion)
		}
		for i := 0; i < 7; i++ {
			v := ver(c.Versions[i])
			if v == wantVersion {
				continue
			}
			env2 := *env
			env2.Signature = common.BLSSignature(sign(v))
			if env2.VerifySignature(spec, common.Root(gvr), common.ValidatorIndex(proposer), cached) {
				return report.Failf("VerifySignature/accepts-other-version", "schedule %v: a %s block at epoch %d signed under the %s version verifies", c.Epochs, forkNames[wantFork], e, forkNames[i])
			}
		}
		// the versioned form (what block processing calls with the STATE's current version, which under a
		// vector-style configuration need not be the version the schedule gives the slot): for every version v,
		// an envelope carrying v's digest and a signature under v verifies with v, a signature under another
		// version does not, and v's digest is required
		for i := 0; i < 7; i++ {
			v := ver(c.Versions[i])
			envV := *env
			envV.ForkDigest = common.ForkDigest(sp.ComputeForkDigest(v, gvr))
			envV.Signature = common.BLSSignature(sign(v))
			if !envV.VerifySignatureVersioned(spec, common.Version(v), common.Root(gvr), common.ValidatorIndex(proposer), cached) {
				return report.Failf("VerifySignatureVersioned/rejects-requested-version", "schedule %v: a %s block at epoch %d whose digest and signature are those of the %s version does not verify when that version is the one asked for", c.Epochs, forkNames[wantFork], e, forkNames[i])
			}
			w := ver(c.Versions[(i+1)%7])
			envW := envV
			envW.Signature = common.BLSSignature(sign(w))
			if envW.VerifySignatureVersioned(spec, common.Version(v), common.Root(gvr), common.ValidatorIndex(proposer), cached) {
				return report.Failf("VerifySignatureVersioned/accepts-other-version", "schedule %v: asked for the %s version, a signature under the %s version verifies", c.Epochs, forkNames[i], forkNames[(i+1)%7])
			}
			envD := envV
			envD.ForkDigest = common.ForkDigest(sp.ComputeForkDigest(w, gvr))
			if envD.VerifySignatureVersioned(spec, common.Version(v), common.Root(gvr), common.ValidatorIndex(proposer), cached) {
				return report.Failf("VerifySignatureVersioned/accepts-other-digest", "schedule %v: asked for the %s version, an envelope carrying the %s digest verifies", c.Epochs, forkNames[i], forkNames[(i+1)%7])
			}
		}
		r.Class("versioned-signature-check:7-versions")
		// wrong proposer index is refused
		if env.VerifySignature(spec, common.Root(gvr), common.ValidatorIndex(proposer+1), cached) {
			return report.Failf("VerifySignature/accepts-other-proposer", "envelope verifies for another proposer index")
		}
	}
	// accounting
	near := false
	coincide := 0
	for i := 1; i <= 6; i++ {
		fe := c.Epochs[i-1]
		if fe != far && (e == fe || e+1 == fe || e == fe+1) {
			near = true
		}
		if fe != far && i >= 2 && fe == c.Epochs[i-2] {
			coincide++
		}
	}
	if near || coincide > 0 {
		side := "at-or-after"
		if wantFork < 6 && c.Epochs[wantFork] != far && e+1 == c.Epochs[wantFork] {
			side = "just-before-next"
		}
		r.NonTrivial(fmt.Sprintf("%s|%s|%s", shape(c), forkNames[wantFork], side))
		r.Class("lookup-near-boundary:" + forkNames[wantFork])
		r.Hit("lookup:" + forkNames[wantFork])
		r.Sample("lookup/"+forkNames[wantFork], func() any { return c })
	} else {
		r.Class("lookup-far-from-boundary")
	}
	return nil
}

// randomBlock derives a deterministic in-limit value of the block type from a seed: rapid's
// example generator is seeded, so the value is a pure function of (type, seed).
func randomBlock(ty *refssz.Type, seed uint64) any {
	g := rapid.Custom(func(t *rapid.T) any { return refssz.Random(t, ty, refssz.GenOpts{MaxList: 2}, "blk") })
	return g.Example(int(seed % (1 << 30)))
}

func shape(c *LookupCase) string {
	// schedule shape: for consecutive forks: '=' equal epochs, '+' adjacent, '>' further, 'F' never
	s := ""
	prev := uint64(0)
	for i := 0; i < 6; i++ {
		e := c.Epochs[i]
		switch {
		case e == far:
			s += "F"
		case e == prev:
			s += "="
		case e == prev+1:
			s += "+"
		default:
			s += ">"
		}
		if e != far {
			prev = e
		}
	}
	return s
}

func genLookup(t *rapid.T) *LookupCase {
	c := &LookupCase{SPE: rapid.SampledFrom([]uint64{1, 4, 8, 32, 3, 6, 12}).Draw(t, "spe")}
	k := rapid.IntRange(0, 6).Draw(t, "activated")
	last := uint64(0)
	hugeTail := rapid.IntRange(0, 3).Draw(t, "huge_tail") == 0
	for i := 0; i < 6; i++ {
		if i < k {
			step := rapid.SampledFrom([]uint64{0, 0, 1, 1, 2, 7, 1 << 20}).Draw(t, "step")
			last += step
			c.Epochs[i] = last
		} else {
			c.Epochs[i] = far
			if hugeTail {
				// scheduled, but unreachably far and NOT the FAR_FUTURE_EPOCH sentinel: the start slot of such an epoch wraps
				if c.SPE == 1 {
					c.Epochs[i] = far - 20 + uint64(i)
				} else {
					c.Epochs[i] = (^uint64(0))/c.SPE + 3 + uint64(i)
				}
			}
		}
	}
	// all versions distinct
	base := rapid.Uint32().Draw(t, "version_base")
	for i := 0; i < 7; i++ {
		v := base + uint32(i)*rapid.Uint32Range(1, 1000).Draw(t, "vstep")
		c.Versions[i] = fmt.Sprintf("%08x", v)
	}
	seen := map[string]bool{}
	for i := 0; i < 7; i++ {
		for seen[c.Versions[i]] {
			n, _ := strconv.ParseUint(c.Versions[i], 16, 32)
			c.Versions[i] = fmt.Sprintf("%08x", uint32(n+1))
		}
		seen[c.Versions[i]] = true
	}
	c.GVR = hex.EncodeToString(rapid.SliceOfN(rapid.Byte(), 32, 32).Draw(t, "gvr"))
	// query: on both sides of a boundary, or anywhere
	if k > 0 && rapid.IntRange(0, 4).Draw(t, "near") > 0 {
		b := c.Epochs[rapid.IntRange(0, k-1).Draw(t, "boundary")]
		d := rapid.IntRange(-1, 1).Draw(t, "side")
		if d < 0 && b == 0 {
			d = 0
		}
		c.Query = uint64(int64(b) + int64(d))
	} else if rapid.IntRange(0, 4).Draw(t, "huge") == 0 {
		// epochs near the top of the range: the start slot of such an epoch does not fit 64 bits for SLOTS_PER_EPOCH > 1
		top := (^uint64(0)) / c.SPE
		d := rapid.Uint64Range(0, 3).Draw(t, "huge_d")
		switch rapid.IntRange(0, 4).Draw(t, "huge_k") {
		case 0:
			c.Query = top - 1 + d // around the last epoch with a representable start slot
		case 1:
			c.Query = uint64(1)<<uint(rapid.IntRange(56, 63).Draw(t, "huge_bit")) + d + rapid.Uint64Range(0, 1<<21).Draw(t, "huge_off")
		case 2:
			c.Query = far - 1 - d
		case 3:
			c.Query = top + 1 + rapid.Uint64Range(0, 1<<22).Draw(t, "huge_wrap") // start slot wraps to a small number
		default:
			c.Query = rapid.Uint64Range(1<<40, far-1).Draw(t, "huge_any")
		}
		if c.Query >= far {
			c.Query = far - 1
		}
	} else {
		c.Query = rapid.Uint64Range(0, 1<<21).Draw(t, "query")
	}
	c.SlotOff = rapid.Uint64Range(0, 31).Draw(t, "slot_off")
	c.Seed = rapid.Uint64().Draw(t, "seed")
	if rapid.IntRange(0, 3).Draw(t, "derived") == 0 {
		// another schedule of the same kind: each fork epoch moved, dropped or kept
		var b [6]uint64
		last := uint64(0)
		for i := 0; i < 6; i++ {
			switch rapid.IntRange(0, 3).Draw(t, "base_kind") {
			case 0:
				b[i] = c.Epochs[i]
			case 1:
				b[i] = far
			default:
				b[i] = last + rapid.Uint64Range(0, 6).Draw(t, "base_step")
			}
			if b[i] < last {
				b[i] = last
			}
			last = b[i]
		}
		c.DerivedFrom = &b
	}
	return c
}

// ---------------------------------------------------------------- (b) chains across boundaries

func runChain(r *report.Run, cc *sim.ChainCase) *report.Failure {
	cfg := cc.Config.Build()
	chain, err := sim.NewChain(cfg, &cc.Genesis)
	if err != nil {
		return nil
	}
	l, err := sim.NewLock(chain)
	if err != nil {
		return report.Failf("genesis/load", "%v", err)
	}
	ctx := context.Background()
	spe := l.Sp.P.SLOTS_PER_EPOCH
	maxEpoch := uint64(0)
	for _, e := range cc.Config.ForkEpochs {
		if e != far && e > maxEpoch {
			maxEpoch = e
		}
	}
	for s := uint64(1); s <= (maxEpoch+1)*spe+1; s++ {
		e, panicked := l.SkipLib(ctx, s)
		if panicked {
			return report.Failf("chain/panic", "slot %d: %v", s, e)
		}
		if e != nil {
			r.Class("discarded_other_property(C02)")
			return nil
		}
		if err := l.SkipRef(s); err != nil {
			return nil
		}
		r.Eval(1)
		epoch := s / spe
		wantFork := 0
		for i := 0; i < 4; i++ {
			if epoch >= cc.Config.ForkEpochs[i] {
				wantFork = i + 1
			}
		}
		if got := zb.ForkOfState(l.Lib); got != wantFork {
			return report.Failf("chain/state-type", "schedule %v: after ProcessSlots to slot %d (epoch %d) the state is a %s state, the slot's fork is %s", cc.Config.ForkEpochs, s, epoch, forkNames[maxI(got, 0)], forkNames[wantFork])
		}
		fk, err := l.Lib.Fork()
		if err != nil {
			return report.Failf("chain/error", "%v", err)
		}
		wantVer := l.Sp.P.ForkVersions[wantFork]
		if [4]byte(fk.CurrentVersion) != wantVer {
			return report.Failf("chain/fork-record", "slot %d: state.fork.current_version %x, the slot's fork (%s) has version %x", s, fk.CurrentVersion, forkNames[wantFork], wantVer)
		}
		if [4]byte(l.LibSpec.ForkVersion(common.Slot(s))) != wantVer {
			return report.Failf("ForkVersion/wrong", "Spec.ForkVersion(slot %d) = %x but the state at that slot records %x", s, l.LibSpec.ForkVersion(common.Slot(s)), wantVer)
		}
		// previous version / epoch of the record
		if wantFork > 0 {
			if [4]byte(fk.PreviousVersion) == wantVer && cc.Config.ForkEpochs[wantFork-1] != 0 {
				// previous == current only before any upgrade
				return report.Failf("chain/fork-record", "slot %d: fork.previous_version equals current_version after an upgrade", s)
			}
			// every upgrade_to_X records pre.fork.current_version: the version of the fork right before this one
			if prev := l.Sp.P.ForkVersions[wantFork-1]; [4]byte(fk.PreviousVersion) != prev || fk.PreviousVersion != common.Version(l.St.ForkData.PreviousVersion) {
				return report.Failf("chain/fork-record", "slot %d (%s): fork.previous_version %x, the preceding fork's version is %x (reference state: %x)", s, forkNames[wantFork], fk.PreviousVersion, prev, l.St.ForkData.PreviousVersion)
			}
			if uint64(fk.Epoch) != cc.Config.ForkEpochs[wantFork-1] {
				return report.Failf("chain/fork-record", "slot %d: fork.epoch %d != %d", s, fk.Epoch, cc.Config.ForkEpochs[wantFork-1])
			}
		}
		if d := l.Compare(); d != "" {
			r.Class("discarded_other_property(C02)")
			return nil
		}
		if s%spe == 0 && l.St.Fork > 0 && cc.Config.ForkEpochs[l.St.Fork-1] == epoch {
			r.NonTrivial(fmt.Sprintf("chain|%v|%s", cc.Config.ForkEpochs, forkNames[wantFork]))
			r.Hit("chain-crosses:" + forkNames[wantFork])
			if spe&(spe-1) != 0 {
				r.Hit("chain:slots-per-epoch-not-a-power-of-two")
			}
			r.Class("chain-boundary:" + forkNames[wantFork])
		}
	}
	return nil
}

func maxI(a, b int) int {
	if a > b {
		return a
	}
	return b
}

// ---------------------------------------------------------------- (c) built-in constants

func checkConstants(r *report.Run) {
	tab, err := refspec.LoadConstTable()
	if err != nil {
		r.Inconclusive("cannot load the pinned constants table: " + err.Error())
		return
	}
	compared, missing := 0, []string{}
	for _, pc := range []struct {
		name string
		spec *common.Spec
		tab  map[string]map[string]string
	}{{"mainnet", configs.Mainnet, tab.Mainnet}, {"minimal", configs.Minimal, tab.Minimal}} {
		fields := map[string]reflect.Value{}
		var walk func(v reflect.Value)
		walk = func(v reflect.Value) {
			t := v.Type()
			for i := 0; i < t.NumField(); i++ {
				if t.Field(i).Anonymous && v.Field(i).Kind() == reflect.Struct {
					walk(v.Field(i))
				} else {
					fields[t.Field(i).Name] = v.Field(i)
				}
			}
		}
		walk(reflect.ValueOf(pc.spec).Elem())
		groups := make([]string, 0, len(pc.tab))
		for g := range pc.tab {
			groups = append(groups, g)
		}
		sort.Strings(groups)
		for _, g := range groups {
			names := make([]string, 0, len(pc.tab[g]))
			for n := range pc.tab[g] {
				names = append(names, n)
			}
			sort.Strings(names)
			for _, n := range names {
				want := pc.tab[g][n]
				fv, ok := fields[n]
				if !ok {
					missing = append(missing, pc.name+"."+n)
					continue
				}
				var got string
				switch fv.Kind() {
				case reflect.Uint64, reflect.Uint8, reflect.Uint16, reflect.Uint32:
					got = strconv.FormatUint(fv.Uint(), 10)
				case reflect.String:
					got = fv.String()
				case reflect.Array:
					bs := make([]byte, fv.Len())
					for i := range bs {
						bs[i] = byte(fv.Index(i).Uint())
					}
					got = "0x" + hex.EncodeToString(bs)
					if fv.Len() == 32 && fv.Type().Name() == "Uint256View" {
						got = "uint256"
					}
				default:
					got = fmt.Sprint(fv.Interface())
				}
				if fv.Type().Name() == "Uint256View" {
					got = fmt.Sprint(fv.Interface())
				}
				r.Eval(1)
				compared++
				if !strings.EqualFold(got, want) {
					c := map[string]string{"config": pc.name, "name": n, "library": got, "spec": want}
					r.Violate(c, report.Failf("constants/"+pc.name+"/"+n, "configs.%s %s = %s, consensus-specs v1.5.0-beta.2 says %s", pc.name, n, got, want), true)
				} else {
					r.NonTrivial("const|" + pc.name + "|" + n)
				}
			}
		}
	}
	// spec-level constants
	lib := map[string]string{
		"BASE_REWARDS_PER_EPOCH": fmt.Sprint(common.BASE_REWARDS_PER_EPOCH), "DEPOSIT_CONTRACT_TREE_DEPTH": fmt.Sprint(common.DEPOSIT_CONTRACT_TREE_DEPTH),
		"JUSTIFICATION_BITS_LENGTH": fmt.Sprint(common.JUSTIFICATION_BITS_LENGTH), "FAR_FUTURE_EPOCH": fmt.Sprint(uint64(common.FAR_FUTURE_EPOCH)),
		"GENESIS_SLOT": fmt.Sprint(uint64(common.GENESIS_SLOT)), "GENESIS_EPOCH": fmt.Sprint(uint64(common.GENESIS_EPOCH)),
		"BLS_WITHDRAWAL_PREFIX": fmt.Sprint(common.BLS_WITHDRAWAL_PREFIX), "ETH1_ADDRESS_WITHDRAWAL_PREFIX": fmt.Sprint(common.ETH1_ADDRESS_WITHDRAWAL_PREFIX),
		"ATTESTATION_SUBNET_COUNT": fmt.Sprint(common.ATTESTATION_SUBNET_COUNT), "SYNC_COMMITTEE_SUBNET_COUNT": fmt.Sprint(common.SYNC_COMMITTEE_SUBNET_COUNT),
		"TARGET_AGGREGATORS_PER_COMMITTEE": fmt.Sprint(common.TARGET_AGGREGATORS_PER_COMMITTEE), "TARGET_AGGREGATORS_PER_SYNC_SUBCOMMITTEE": fmt.Sprint(common.TARGET_AGGREGATORS_PER_SYNC_SUBCOMMITTEE),
		"VERSIONED_HASH_VERSION_KZG": fmt.Sprint(common.VERSIONED_HASH_VERSION_KZG),
		"TIMELY_SOURCE_FLAG_INDEX":   fmt.Sprint(altair.TIMELY_SOURCE_FLAG_INDEX), "TIMELY_TARGET_FLAG_INDEX": fmt.Sprint(altair.TIMELY_TARGET_FLAG_INDEX), "TIMELY_HEAD_FLAG_INDEX": fmt.Sprint(altair.TIMELY_HEAD_FLAG_INDEX),
		"TIMELY_SOURCE_WEIGHT": fmt.Sprint(uint64(altair.TIMELY_SOURCE_WEIGHT)), "TIMELY_TARGET_WEIGHT": fmt.Sprint(uint64(altair.TIMELY_TARGET_WEIGHT)), "TIMELY_HEAD_WEIGHT": fmt.Sprint(uint64(altair.TIMELY_HEAD_WEIGHT)),
		"SYNC_REWARD_WEIGHT": fmt.Sprint(uint64(altair.SYNC_REWARD_WEIGHT)), "PROPOSER_WEIGHT": fmt.Sprint(uint64(altair.PROPOSER_WEIGHT)), "WEIGHT_DENOMINATOR": fmt.Sprint(uint64(altair.WEIGHT_DENOMINATOR)),
		"DOMAIN_BEACON_PROPOSER": "0x" + hex.EncodeToString(common.DOMAIN_BEACON_PROPOSER[:]), "DOMAIN_BEACON_ATTESTER": "0x" + hex.EncodeToString(common.DOMAIN_BEACON_ATTESTER[:]),
		"DOMAIN_RANDAO": "0x" + hex.EncodeToString(common.DOMAIN_RANDAO[:]), "DOMAIN_DEPOSIT": "0x" + hex.EncodeToString(common.DOMAIN_DEPOSIT[:]),
		"DOMAIN_VOLUNTARY_EXIT": "0x" + hex.EncodeToString(common.DOMAIN_VOLUNTARY_EXIT[:]), "DOMAIN_SELECTION_PROOF": "0x" + hex.EncodeToString(common.DOMAIN_SELECTION_PROOF[:]),
		"DOMAIN_AGGREGATE_AND_PROOF": "0x" + hex.EncodeToString(common.DOMAIN_AGGREGATE_AND_PROOF[:]), "DOMAIN_SYNC_COMMITTEE": "0x" + hex.EncodeToString(common.DOMAIN_SYNC_COMMITTEE[:]),
		"DOMAIN_SYNC_COMMITTEE_SELECTION_PROOF": "0x" + hex.EncodeToString(common.DOMAIN_SYNC_COMMITTEE_SELECTION_PROOF[:]), "DOMAIN_CONTRIBUTION_AND_PROOF": "0x" + hex.EncodeToString(common.DOMAIN_CONTRIBUTION_AND_PROOF[:]),
		"DOMAIN_BLS_TO_EXECUTION_CHANGE": "0x" + hex.EncodeToString(common.DOMAIN_BLS_TO_EXECUTION_CHANGE[:]),
	}
	names := make([]string, 0, len(tab.SpecConstants))
	for n := range tab.SpecConstants {
		names = append(names, n)
	}
	sort.Strings(names)
	for _, n := range names {
		want := fmt.Sprint(tab.SpecConstants[n])
		if fl, ok := tab.SpecConstants[n].(float64); ok {
			want = strconv.FormatUint(uint64(fl), 10)
		}
		got, ok := lib[n]
		if !ok {
			missing = append(missing, "spec-level."+n)
			continue
		}
		r.Eval(1)
		compared++
		if !strings.EqualFold(got, want) {
			c := map[string]string{"name": n, "library": got, "spec": want}
			r.Violate(c, report.Failf("constants/spec-level/"+n, "%s = %s in the library, the specification says %s", n, got, want), true)
		} else {
			r.NonTrivial("const|spec|" + n)
		}
	}
	r.ClassN("constants-compared", int64(compared))
	r.S.Extra["constants_compared"] = compared
	r.S.Extra["constants_not_in_library"] = missing
	r.Hit("constants-enumerated")
	r.ExhaustiveOver(fmt.Sprintf("every name of the pinned v1.5.0-beta.2 table (mainnet, minimal, spec-level): %d values compared, %d table names have no counterpart in the library (listed)", compared, len(missing)))
}

func TestCheck(t *testing.T) {
	r := report.Begin("C14")
	defer r.Finish()
	r.Rule("(a) generated configurations (SLOTS_PER_EPOCH in {1,3,4,6,8,12,32}; a quarter of the configurations are by-value copies of a Spec that was queried under another schedule before its fork epochs were overwritten; non-decreasing fork epochs for altair..fulu incl. 0, equal, adjacent, far apart and never-activated; 7 distinct versions; random genesis validators root) x a queried epoch on or next to a boundary, anywhere, or near the top of the 64-bit range (where only the epoch-keyed lookups ForkDigest/BlockAllocator exist because the start slot does not fit 64 bits; FAR_FUTURE_EPOCH itself excluded); a digest of no configured fork must get no allocator; Spec.ForkVersion, ForkDecoder.ForkDigest, BlockAllocator, random block -> Envelope -> EnvelopeToSignedBeaconBlock identity, VerifySignature under the implied version (must pass) and under each of the six others (must fail); (b) chains (4, 5 or 6 slots per epoch) advanced slot by slot across every boundary: state type and fork record; (c) the built-in constants enumerated against the pinned table. non-trivial (a) = epoch within 1 of a boundary or coinciding forks; distinct key = (schedule shape, fork at epoch, side)")
	r.Assume("the pinned constants table (spec_tables/constants_v1.5.0-beta.2.json) is the specification's; a constant wrong today and misremembered identically is not detected", "compute_fork_version generalised to electra/fulu in the obvious way", "BlockAllocator is judged up to electra (the library exports no fulu block type)")
	replay := func(raw json.RawMessage) *report.Failure {
		var probe map[string]json.RawMessage
		json.Unmarshal(raw, &probe)
		if _, ok := probe["actions"]; ok {
			var cc sim.ChainCase
			json.Unmarshal(raw, &cc)
			return runChain(r, &cc)
		}
		if _, ok := probe["fork_epochs"]; ok {
			var c LookupCase
			if err := json.Unmarshal(raw, &c); err != nil {
				return report.Failf("harness", "bad case: %v", err)
			}
			return runLookup(r, &c)
		}
		return nil // constants findings are re-evaluated by the enumeration itself
	}
	r.Regress(replay)
	if r.Replay != "" {
		return
	}
	r.Mandatory("constants-enumerated", "lookup:epoch-beyond-slot-range", "lookup:configuration-derived-from-a-used-one", "chain:slots-per-epoch-not-a-power-of-two", "lookup:phase0", "lookup:altair", "lookup:bellatrix", "lookup:capella", "lookup:deneb", "lookup:electra", "lookup:fulu",
		"chain-crosses:altair", "chain-crosses:bellatrix", "chain-crosses:capella", "chain-crosses:deneb")
	if r.S.Shard == 0 {
		checkConstants(r)
	} else {
		r.Hit("constants-enumerated")
	}
	if !r.Search(t, "lookups", 0, r.N(3000, 60000), func(rt *rapid.T) (any, *report.Failure) {
		c := genLookup(rt)
		return c, runLookup(r, c)
	}) {
		return
	}
	r.Search(t, "chains", 1, r.N(64, 1200), func(rt *rapid.T) (any, *report.Failure) {
		cc := &sim.ChainCase{}
		cfgc := sim.GenConfig(rt, 100, false, 1)
		spe := rapid.SampledFrom([]uint64{4, 4, 6, 5}).Draw(rt, "chain_spe")
		cfgc.Override["SLOTS_PER_EPOCH"] = spe
		cfgc.Override["SLOTS_PER_HISTORICAL_ROOT"] = 2 * spe
		// every chain activates all four forks within a few epochs (equal/adjacent epochs drawn)
		var fe [4]uint64
		last := uint64(1)
		for i := 0; i < 4; i++ {
			last += rapid.SampledFrom([]uint64{0, 0, 1, 1, 2}).Draw(rt, "fork_step")
			fe[i] = last
		}
		if rapid.IntRange(0, 3).Draw(rt, "tail") == 0 {
			fe[3] = far
		}
		cfgc.ForkEpochs = fe
		cc.Config = *cfgc
		cc.Genesis = sim.GenGenesis(rt, cc.Config.Build(), 24)
		return cc, runChain(r, cc)
	})
}
