package c17

import (
	"context"
	"fmt"
	"runtime"
	"sort"
	"strings"
	"sync/atomic"
	"time"

	"github.com/protolambda/zrnt/eth2/beacon/common"
	"github.com/protolambda/zrnt/eth2/configs"
	"github.com/protolambda/zrnt/eth2/forkchoice"
	"github.com/protolambda/zrnt/eth2/forkchoice/proto"

	"zrntverif/fcsim"
)

// extra call kinds on top of fcsim's
const (
	kJustified = "justified"
	kFinalized = "finalized"
	kGetPin    = "getpin"
)

const fcMaxID = 64

var fcNames = func() map[common.Root]int {
	m := map[common.Root]int{}
	for i := 0; i <= fcMaxID; i++ {
		m[fcsim.RootOf(i)] = i
	}
	return m
}()

// one read-only spec for every fork-choice world (SLOTS_PER_EPOCH = 4 as in fcsim)
var fcSpec = func() *common.Spec {
	sp := *configs.Minimal
	sp.SLOTS_PER_EPOCH = 4
	return &sp
}()

func rootName(r common.Root) string {
	if id, ok := fcNames[r]; ok {
		return fmt.Sprint(id)
	}
	return fmt.Sprintf("?%x", r[:3])
}

func refName(n common.NodeRef) string {
	return "(" + rootName(n.Root) + "," + fmt.Sprint(uint64(n.Slot)) + ")"
}

func refsName(ns []common.NodeRef, sorted bool) string {
	s := make([]string, len(ns))
	for i, n := range ns {
		s[i] = refName(n)
	}
	if sorted {
		sort.Strings(s)
	}
	return "[" + strings.Join(s, " ") + "]"
}

func errName(err error) string {
	if err != nil {
		return "err"
	}
	return "ok"
}

type sinkKey struct{}

type fcWorld struct {
	fc   forkchoice.Forkchoice
	cfg  *fcsim.Config
	slow *slowGraph
}

// slowGraph decorates the graph the wrapper drives: once armed (the concurrent phase only — never in the
// single-threaded replays that serve as the sequential specification) every graph call first pauses
// (Gosched, or a sleep of tens to hundreds of microseconds). The wrapper calls into the graph while it
// holds its lock, so a pause widens exactly the windows in which other goroutines queue up on that lock;
// a method that validates under one lock acquisition and acts under another then meets a writer in between.
// The pause perturbs the schedule only; no verdict depends on a duration.
type slowGraph struct {
	forkchoice.ForkchoiceGraph
	kind atomic.Int32
}

func (g *slowGraph) pause() {
	switch g.kind.Load() {
	case 1:
		runtime.Gosched()
	case 2:
		time.Sleep(40 * time.Microsecond)
	case 3:
		time.Sleep(300 * time.Microsecond)
	}
}

func (g *slowGraph) arm(kind int) { g.kind.Store(int32(kind)) }

func (g *slowGraph) CanonicalChain(a common.Root, s common.Slot) ([]common.ExtendedNodeRef, error) {
	g.pause()
	return g.ForkchoiceGraph.CanonicalChain(a, s)
}
func (g *slowGraph) ClosestToSlot(a common.Root, s common.Slot) (common.NodeRef, error) {
	g.pause()
	return g.ForkchoiceGraph.ClosestToSlot(a, s)
}
func (g *slowGraph) CanonAtSlot(a common.Root, s common.Slot, wb bool) (common.NodeRef, error) {
	g.pause()
	return g.ForkchoiceGraph.CanonAtSlot(a, s, wb)
}
func (g *slowGraph) GetSlot(r common.Root) (common.Slot, bool) {
	g.pause()
	return g.ForkchoiceGraph.GetSlot(r)
}
func (g *slowGraph) FindHead(a common.Root, s common.Slot) (common.NodeRef, error) {
	g.pause()
	return g.ForkchoiceGraph.FindHead(a, s)
}
func (g *slowGraph) InSubtree(a, r common.Root) (bool, bool) {
	g.pause()
	return g.ForkchoiceGraph.InSubtree(a, r)
}
func (g *slowGraph) Search(a common.NodeRef, p *common.Root, s *common.Slot) ([]common.NodeRef, []common.NodeRef, error) {
	g.pause()
	return g.ForkchoiceGraph.Search(a, p, s)
}
func (g *slowGraph) OnPrune(ctx context.Context, r common.Root, s common.Slot) error {
	g.pause()
	return g.ForkchoiceGraph.OnPrune(ctx, r, s)
}

func (w *fcWorld) arm(kind int) {
	if w.slow != nil {
		w.slow.arm(kind)
	}
}

func newFcWorld(c *Case) (world, error) {
	cfg := c.FcCfg
	if cfg == nil || cfg.SPE != 4 {
		return nil, fmt.Errorf("fork-choice case without config (or SLOTS_PER_EPOCH != 4)")
	}
	ar, ap := fcsim.RootOf(cfg.AnchorRoot), fcsim.RootOf(cfg.AnchorParent)
	fin := common.Checkpoint{Root: ar, Epoch: common.Epoch(cfg.FE)}
	just := common.Checkpoint{Root: ar, Epoch: common.Epoch(cfg.JE)}
	var sink proto.NodeSink
	if cfg.Sink != "nil" {
		// The pruned nodes are part of UpdateJustified's result. They are handed back through the call's
		// own context, so the sink shares nothing between calls.
		sink = proto.NodeSinkFn(func(ctx context.Context, ref common.NodeRef, canonical bool) error {
			if p, ok := ctx.Value(sinkKey{}).(*[]string); ok {
				*p = append(*p, fmt.Sprintf("%s:%v", refName(ref), canonical))
			}
			return nil
		})
	}
	bal := make([]common.Gwei, len(cfg.Bal))
	for i, b := range cfg.Bal {
		bal[i] = common.Gwei(b)
	}
	pa := proto.NewProtoArray(ap, ar, common.Slot(cfg.AnchorSlot), just.Epoch, fin.Epoch, sink)
	sg := &slowGraph{ForkchoiceGraph: pa}
	fc, err := forkchoice.NewForkChoice(fcSpec, fin, just, ar, common.Slot(cfg.AnchorSlot), sg, proto.NewProtoVoteStore(fcSpec), bal)
	if err != nil {
		return nil, err
	}
	return &fcWorld{fc: fc, cfg: cfg, slow: sg}, nil
}

func (w *fcWorld) do(g int, op *Op) string {
	o := op.Fc
	if o == nil {
		return "harness: not a fork-choice call"
	}
	return guardCall(func() string {
		fc := w.fc
		switch o.K {
		case fcsim.KBlock:
			return fmt.Sprint(fc.ProcessBlock(fcsim.RootOf(o.P), fcsim.RootOf(o.R), common.Slot(o.S), common.Epoch(o.JE), common.Epoch(o.FE)))
		case fcsim.KSlot:
			fc.ProcessSlot(fcsim.RootOf(o.P), common.Slot(o.S), common.Epoch(o.JE), common.Epoch(o.FE))
			return ""
		case fcsim.KAtt:
			return fmt.Sprint(fc.ProcessAttestation(common.ValidatorIndex(o.V), fcsim.RootOf(o.R), common.Slot(o.S)))
		case fcsim.KUpd:
			var pruned []string
			ctx := context.WithValue(context.Background(), sinkKey{}, &pruned)
			j := common.Checkpoint{Root: fcsim.RootOf(o.J.R), Epoch: common.Epoch(o.J.E)}
			f := common.Checkpoint{Root: fcsim.RootOf(o.F.R), Epoch: common.Epoch(o.F.E)}
			called := false
			err := fc.UpdateJustified(ctx, fcsim.RootOf(o.T), j, f, func() ([]common.Gwei, error) {
				called = true
				// the caller's balances source (a justified state being loaded) takes its time: longer for some
				// updates than for others, so that two overlapping updates finish in either order
				if w.slow != nil {
					for k := uint64(0); k <= (o.J.E*2+o.F.E+1)%3*2; k++ {
						w.slow.pause()
					}
				}
				if o.BalErr {
					return nil, fmt.Errorf("scripted balances failure")
				}
				// nil in the case value: "balances unchanged" cannot be expressed without reading the
				// component, so an update always carries a vector (the config's one by default)
				src := o.Bal
				if src == nil {
					src = w.cfg.Bal
				}
				out := make([]common.Gwei, len(src))
				for i, b := range src {
					out[i] = common.Gwei(b)
				}
				return out, nil
			})
			sort.Strings(pruned)
			return fmt.Sprintf("%s balances-asked=%v pruned=%v", errName(err), called, pruned)
		case fcsim.KPin:
			return errName(fc.SetPin(fcsim.RootOf(o.R), common.Slot(o.S)))
		case fcsim.KHead:
			n, err := fc.Head()
			return errName(err) + refName(n)
		case fcsim.KFHead:
			n, err := fc.FindHead(fcsim.RootOf(o.R), common.Slot(o.S))
			return errName(err) + refName(n)
		case fcsim.KChain:
			ch, err := fc.CanonicalChain(fcsim.RootOf(o.R), common.Slot(o.S))
			s := make([]string, len(ch))
			for i, n := range ch {
				s[i] = refName(n.NodeRef) + "<" + rootName(n.ParentRoot)
			}
			return errName(err) + strings.Join(s, " ")
		case fcsim.KInSub:
			u, in := fc.InSubtree(fcsim.RootOf(o.P), fcsim.RootOf(o.R))
			return fmt.Sprintf("unknown=%v in=%v", u, in)
		case fcsim.KClosest:
			n, err := fc.ClosestToSlot(fcsim.RootOf(o.R), common.Slot(o.S))
			return errName(err) + refName(n)
		case fcsim.KCanon:
			n, err := fc.CanonAtSlot(fcsim.RootOf(o.R), common.Slot(o.S), o.WB)
			return errName(err) + refName(n)
		case fcsim.KGetSlot:
			s, ok := fc.GetSlot(fcsim.RootOf(o.R))
			return fmt.Sprintf("%d,%v", uint64(s), ok)
		case fcsim.KSearch:
			var pr *common.Root
			var ps *common.Slot
			if o.QP != nil {
				r := common.Root(fcsim.RootOf(*o.QP))
				pr = &r
			}
			if o.QS != nil {
				s := common.Slot(*o.QS)
				ps = &s
			}
			non, can, err := fc.Search(common.NodeRef{Root: fcsim.RootOf(o.R), Slot: common.Slot(o.S)}, pr, ps)
			return errName(err) + " non=" + refsName(non, true) + " canon=" + refsName(can, true)
		case kJustified:
			cp := fc.Justified()
			return fmt.Sprintf("%s@%d", rootName(cp.Root), uint64(cp.Epoch))
		case kFinalized:
			cp := fc.Finalized()
			return fmt.Sprintf("%s@%d", rootName(cp.Root), uint64(cp.Epoch))
		case kGetPin:
			p := fc.Pin()
			if p == nil {
				return "nil"
			}
			return refName(*p)
		}
		return "harness: unknown fork-choice call " + o.K
	})
}

func (w *fcWorld) state() any { return w }

func (w *fcWorld) observe() string {
	fc := w.fc
	var b strings.Builder
	h, err := fc.Head()
	fmt.Fprintf(&b, "head=%s%s", errName(err), refName(h))
	j, f := fc.Justified(), fc.Finalized()
	fmt.Fprintf(&b, " just=%s@%d fin=%s@%d", rootName(j.Root), uint64(j.Epoch), rootName(f.Root), uint64(f.Epoch))
	if p := fc.Pin(); p != nil {
		fmt.Fprintf(&b, " pin=%s", refName(*p))
	}
	for id := 0; id <= fcMaxID; id++ {
		r := fcsim.RootOf(id)
		s, ok := fc.GetSlot(r)
		if !ok {
			continue
		}
		fmt.Fprintf(&b, " %d@%d", id, uint64(s))
		non, can, err := fc.Search(common.NodeRef{Root: r, Slot: s}, nil, nil)
		fmt.Fprintf(&b, "{%s %s %s}", errName(err), refsName(non, true), refsName(can, true))
		ch, err := fc.CanonicalChain(r, s)
		fmt.Fprintf(&b, "/%s%d", errName(err), len(ch))
	}
	return b.String()
}

func fcMeta(op *Op) meta {
	o := op.Fc
	if o == nil {
		return meta{M: "?", Write: true, Keys: []string{"*"}}
	}
	k := func(ids ...int) []string {
		s := make([]string, len(ids))
		for i, id := range ids {
			s[i] = fmt.Sprint(id)
		}
		return s
	}
	switch o.K {
	case fcsim.KBlock:
		return meta{M: "ProcessBlock", Write: true, Keys: k(o.P, o.R)}
	case fcsim.KSlot:
		return meta{M: "ProcessSlot", Write: true, Void: true, Keys: k(o.P)}
	case fcsim.KAtt:
		return meta{M: "ProcessAttestation", Write: true, Keys: k(o.R)}
	case fcsim.KUpd:
		return meta{M: "UpdateJustified", Write: true, Keys: []string{"*"}}
	case fcsim.KPin:
		return meta{M: "SetPin", Write: true, Keys: append(k(o.R), "pin")}
	case fcsim.KHead:
		return meta{M: "Head", Keys: []string{"*"}}
	case fcsim.KFHead:
		return meta{M: "FindHead", Keys: []string{"*"}}
	case fcsim.KChain:
		return meta{M: "CanonicalChain", Keys: []string{"*"}}
	case fcsim.KCanon:
		return meta{M: "CanonAtSlot", Keys: []string{"*"}}
	case fcsim.KSearch:
		return meta{M: "Search", Keys: []string{"*"}}
	case fcsim.KInSub:
		return meta{M: "InSubtree", Keys: k(o.P, o.R)}
	case fcsim.KClosest:
		return meta{M: "ClosestToSlot", Write: false, Keys: k(o.R)}
	case fcsim.KGetSlot:
		return meta{M: "GetSlot", Write: false, Keys: k(o.R)}
	case kJustified:
		return meta{M: "Justified", Write: false, Keys: []string{"*"}}
	case kFinalized:
		return meta{M: "Finalized", Write: false, Keys: []string{"*"}}
	case kGetPin:
		return meta{M: "Pin", Write: false, Keys: []string{"pin", "*"}}
	}
	return meta{M: o.K, Write: true, Keys: []string{"*"}}
}
