package c17

import (
	"fmt"
	"hash/fnv"
	"runtime"
	"sort"
	"strings"
	"sync"
	"sync/atomic"
	"time"

	"github.com/anishathalye/porcupine"

	"zrntverif/fcsim"
	"zrntverif/report"
)

// ---------------------------------------------------------------- case value

// Op is one call into the component under test. One flat struct for every component; which fields
// mean something is decided by K (see the component files).
type Op struct {
	K  string    `json:"k"`
	Fc *fcsim.Op `json:"fc,omitempty"` // fork choice: the call, in fcsim's vocabulary (+ "justified", "finalized", "getpin")

	// pubkey cache
	H   int    `json:"h,omitempty"`   // 0: the shared root handle, 1: the handle this goroutine holds (result of its last successful add)
	I   uint64 `json:"i,omitempty"`   // validator index
	Key int    `json:"key,omitempty"` // key letter

	// attestation pool (c20's universe: 3 epochs x 2 slots x 2 committees, data variant V)
	E     int     `json:"e,omitempty"`
	S     int     `json:"s,omitempty"`
	C     int     `json:"c,omitempty"`
	V     int     `json:"v,omitempty"`
	Bits  string  `json:"bits,omitempty"`
	FSlot *uint64 `json:"fslot,omitempty"`
	FComm *uint64 `json:"fcomm,omitempty"`

	// exit / slashing pools
	Val     uint64   `json:"val,omitempty"`
	Epoch   uint64   `json:"epoch,omitempty"` // also: Prune(epoch)
	Variant int      `json:"variant,omitempty"`
	Idx1    []uint64 `json:"idx1,omitempty"`
	Idx2    []uint64 `json:"idx2,omitempty"`

	// sync committee pool
	Slot   uint64 `json:"slot,omitempty"`
	Root   int    `json:"root,omitempty"`
	Subnet uint64 `json:"subnet,omitempty"`
	SBits  uint8  `json:"sbits,omitempty"`
}

// Sched is the drawn interleaving bias. It cannot choose the schedule (the Go scheduler does), it
// only changes its distribution.
type Sched struct {
	Release string   `json:"release"` // "barrier": all goroutines are released at once (channel close); "spin": they also spin until all have arrived; "stagger": goroutine g yields g*Lag times first
	Lag     int      `json:"lag,omitempty"`
	Yield   []string `json:"yield"` // per goroutine, per call (cyclic): '0' none, '1' Gosched before, '2' after, '3' both
	// SlowGraph (fork choice only): pause inside every call the wrapper makes into its graph during the concurrent
	// phase: 0 none, 1 Gosched, 2 sleep 40us, 3 sleep 300us
	SlowGraph int `json:"slow_graph,omitempty"`
}

type Case struct {
	Comp  string        `json:"comp"` // fc | pubkey | att | exit | propslash | attslash | sync
	Size  string        `json:"size"` // small (all three oracles) | large (race detector + watchdog)
	FcCfg *fcsim.Config `json:"fc_cfg,omitempty"`
	// pubkey: registry the shared cache is built from (distinct letters), Empty: EmptyPubkeyCache + adds instead of NewPubkeyCache(registry)
	Reg   []int `json:"reg,omitempty"`
	Empty bool  `json:"empty,omitempty"`
	// att: universe
	BaseEpoch uint64 `json:"base_epoch,omitempty"`
	Sizes     []int  `json:"sizes,omitempty"`

	Setup   []Op   `json:"setup,omitempty"` // executed by one goroutine before the others start
	Threads [][]Op `json:"threads"`
	Sched   Sched  `json:"sched"`
	Note    string `json:"note,omitempty"`
}

func (c *Case) nops() int {
	n := 0
	for _, t := range c.Threads {
		n += len(t)
	}
	return n
}

// ---------------------------------------------------------------- component adapter

// world is one instance of a component plus what each goroutine holds locally (handles).
// do must add no synchronisation of its own: the only synchronisation between two goroutines of a
// program is what the code under test does.
type world interface {
	do(g int, op *Op) string // one call, result in canonical form; panics are recovered into "panic: ..."
	observe() string         // read-only sweep of everything observable, called when all goroutines are done
	state() any              // the instance plus what the goroutines hold, for fingerprint()
}

// meta describes a call for the evidence (who overlapped with whom on what).
type meta struct {
	M     string   // method name
	Write bool     // changes what later calls can observe
	Void  bool     // a write whose result says nothing about the state (ProcessSlot, Prune, Reset): every other call also reads
	Keys  []string // what it touches; "*" = everything
}

func newWorld(c *Case) (w world, err error) {
	defer func() {
		if p := recover(); p != nil {
			err = fmt.Errorf("constructor/setup panicked: %v", p)
		}
	}()
	switch c.Comp {
	case "fc":
		w, err = newFcWorld(c)
	case "pubkey":
		w, err = newPkWorld(c)
	case "att":
		w, err = newAttWorld(c)
	case "exit", "propslash", "attslash":
		w, err = newOpsWorld(c)
	case "sync":
		w, err = newSyncWorld(c)
	default:
		return nil, fmt.Errorf("unknown component %q", c.Comp)
	}
	if err != nil {
		return nil, err
	}
	for i := range c.Setup {
		w.do(0, &c.Setup[i])
	}
	return w, nil
}

func metaOf(c *Case, op *Op) meta {
	switch c.Comp {
	case "fc":
		return fcMeta(op)
	case "pubkey":
		return pkMeta(op)
	case "att":
		return attMeta(c, op)
	case "exit", "propslash", "attslash":
		return opsMeta(c, op)
	}
	return syncMeta(op)
}

func guardCall(fn func() string) (out string) {
	defer func() {
		if p := recover(); p != nil {
			out = "panic: " + fmt.Sprint(p)
		}
	}()
	return fn()
}

// ---------------------------------------------------------------- concurrent execution

type rec struct {
	Inv, Ret int64
	Out      string
}

type padded struct {
	v atomic.Int32
	_ [60]byte
}

type outcome struct {
	recs    [][]rec
	final   string
	stuck   []string // calls in flight when the watchdog expired
	elapsed time.Duration
}

var watchdog = 20 * time.Second

// runConcurrent executes the program: one goroutine per thread, released as Sched says.
// small: invoke/return stamps come from one atomic counter (a sound real-time order for the
// linearizability check; the counter is itself a synchronisation, so it hides races between calls
// that do not overlap). large: stamps are monotonic clock readings kept goroutine-locally - no
// synchronisation at all between the goroutines besides the code under test, so the race detector
// sees the whole happens-before class; they serve the evidence only.
func runConcurrent(c *Case, w world) *outcome {
	small := c.Size == "small"
	G := len(c.Threads)
	o := &outcome{recs: make([][]rec, G)}
	cur := make([]padded, G) // per goroutine: index of the call in flight, -1 when done (read by the watchdog only)
	var ctr atomic.Int64
	var arrived atomic.Int32
	t0 := time.Now()
	start := make(chan struct{})
	var wg sync.WaitGroup
	if a, ok := w.(interface{ arm(int) }); ok {
		a.arm(c.Sched.SlowGraph)
		defer a.arm(0)
	}
	for g := 0; g < G; g++ {
		o.recs[g] = make([]rec, len(c.Threads[g]))
		wg.Add(1)
		go func(g int) {
			defer wg.Done()
			ops := c.Threads[g]
			recs := o.recs[g]
			yield := "0"
			if g < len(c.Sched.Yield) && c.Sched.Yield[g] != "" {
				yield = c.Sched.Yield[g]
			}
			<-start
			if c.Sched.Release == "spin" {
				// tight release: everybody spins until everybody has arrived (the only harness-made
				// synchronisation between the goroutines, before their first call)
				arrived.Add(1)
				for n := 0; arrived.Load() < int32(G); n++ {
					if n%256 == 255 {
						runtime.Gosched()
					}
				}
			}
			if c.Sched.Release == "stagger" {
				for i := 0; i < g*c.Sched.Lag; i++ {
					runtime.Gosched()
				}
			}
			for j := range ops {
				y := yield[j%len(yield)] - '0'
				if y&1 != 0 {
					runtime.Gosched()
				}
				cur[g].v.Store(int32(j))
				var inv, ret int64
				if small {
					inv = ctr.Add(1)
				} else {
					inv = int64(time.Since(t0))
				}
				out := w.do(g, &ops[j])
				if small {
					ret = ctr.Add(1)
				} else {
					ret = int64(time.Since(t0))
				}
				recs[j] = rec{inv, ret, out}
				if y&2 != 0 {
					runtime.Gosched()
				}
			}
			cur[g].v.Store(-1)
		}(g)
	}
	done := make(chan struct{})
	go func() { wg.Wait(); close(done) }()
	close(start)
	select {
	case <-done:
	case <-time.After(watchdog):
		for g := 0; g < G; g++ {
			if j := cur[g].v.Load(); j >= 0 && int(j) < len(c.Threads[g]) {
				o.stuck = append(o.stuck, fmt.Sprintf("goroutine %d call %d %s", g, j, describe(c, &c.Threads[g][j])))
			}
		}
		if len(o.stuck) == 0 {
			o.stuck = []string{"(no call in flight: the goroutines were starved)"}
		}
		o.elapsed = time.Since(t0)
		return o
	}
	o.elapsed = time.Since(t0)
	if !report.WithTimeout(watchdog, func() { o.final = guardCall(w.observe) }) {
		o.stuck = []string{"final read-only sweep after all goroutines were done"}
	}
	return o
}

func describe(c *Case, op *Op) string {
	if op.Fc != nil {
		return op.Fc.String()
	}
	m := metaOf(c, op)
	switch c.Comp {
	case "pubkey":
		h := "root"
		if op.H == 1 {
			h = "held"
		}
		return fmt.Sprintf("%s[%s](i=%d,key=%s)", m.M, h, op.I, letter(op.Key))
	case "att":
		switch op.K {
		case "add":
			return fmt.Sprintf("AddAttestation(e=%d,s=%d,c=%d,v=%d,bits=%s)", op.E, op.S, op.C, op.V, op.Bits)
		case "search":
			return fmt.Sprintf("Search(slot=%s,comm=%s)", optStr(op.FSlot), optStr(op.FComm))
		}
		return fmt.Sprintf("Prune(%d)", op.Epoch)
	case "sync":
		return fmt.Sprintf("%s(slot=%d,val=%d,root=%d,subnet=%d)", m.M, op.Slot, op.Val, op.Root, op.Subnet)
	}
	return fmt.Sprintf("%s(val=%d,epoch=%d,variant=%d,idx=%v/%v)", m.M, op.Val, op.Epoch, op.Variant, op.Idx1, op.Idx2)
}

func optStr(p *uint64) string {
	if p == nil {
		return "-"
	}
	return fmt.Sprint(*p)
}

func short(s string) string {
	if len(s) > 90 {
		h := fnv.New64a()
		h.Write([]byte(s))
		return fmt.Sprintf("%s…#%x", s[:60], h.Sum64())
	}
	return s
}

func (o *outcome) dump(c *Case) string {
	var b strings.Builder
	for g := range o.recs {
		for j, r := range o.recs[g] {
			fmt.Fprintf(&b, "\n  g%d#%d [%d,%d] %s -> %s", g, j, r.Inv, r.Ret, describe(c, &c.Threads[g][j]), short(r.Out))
		}
	}
	fmt.Fprintf(&b, "\n  final sweep -> %s", short(o.final))
	return b.String()
}

// ---------------------------------------------------------------- overlap measurement (evidence)

type overlapInfo struct {
	pairs    map[string]bool // "Writer~Reader" (different goroutines, intervals intersect, common key)
	anyPairs int             // pairs of calls of different goroutines whose intervals intersect
	ww       bool            // two overlapping writers on a common key
}

func keysMeet(a, b []string) bool {
	for _, x := range a {
		for _, y := range b {
			if x == y || x == "*" || y == "*" {
				return true
			}
		}
	}
	return false
}

func measure(c *Case, o *outcome) *overlapInfo {
	type ev struct {
		g        int
		inv, ret int64
		m        meta
	}
	var all []ev
	for g := range o.recs {
		for j, r := range o.recs[g] {
			if r.Inv == 0 && r.Ret == 0 && r.Out == "" {
				continue // never executed (blocked run)
			}
			all = append(all, ev{g, r.Inv, r.Ret, metaOf(c, &c.Threads[g][j])})
		}
	}
	sort.Slice(all, func(i, j int) bool { return all[i].inv < all[j].inv })
	info := &overlapInfo{pairs: map[string]bool{}}
	for i := range all {
		for j := i + 1; j < len(all) && all[j].inv <= all[i].ret; j++ {
			a, b := all[i], all[j]
			if a.g == b.g {
				continue
			}
			info.anyPairs++
			if !keysMeet(a.m.Keys, b.m.Keys) {
				continue
			}
			// writer~reader pairs (a call whose result depends on the state reads it, also when it writes)
			if a.m.Write && !b.m.Void {
				info.pairs[a.m.M+"~"+b.m.M] = true
			}
			if b.m.Write && !a.m.Void {
				info.pairs[b.m.M+"~"+a.m.M] = true
			}
			if a.m.Write && b.m.Write {
				info.ww = true
			}
		}
	}
	return info
}

func (i *overlapInfo) key() string {
	ks := make([]string, 0, len(i.pairs))
	for k := range i.pairs {
		ks = append(ks, k)
	}
	sort.Strings(ks)
	return strings.Join(ks, ",")
}

// ---------------------------------------------------------------- sequential specification = the component itself

type opRef struct{ g, j int } // g == finalG: the final sweep

const finalG = 250

func enc(r opRef) string { return string([]byte{byte(r.g), byte(r.j)}) }

type linState struct {
	fp   string // fingerprint of the instance after replaying full (what Equal looks at)
	full string // every call linearized so far, in order (what is replayed)
}

type replayed struct{ out, fp string }

type seqSpec struct {
	c        *Case
	memo     map[string]replayed
	replays  int
	blocked  bool // a purely sequential replay did not return: no verdict from this case
	panicked map[string]bool
}

func newSeqSpec(c *Case) *seqSpec {
	return &seqSpec{c: c, memo: map[string]replayed{}, panicked: map[string]bool{}}
}

// replay runs the calls of seq, then cand, on a fresh instance in this one goroutine and returns
// cand's result and the fingerprint of the instance afterwards.
func (s *seqSpec) replay(seq string, cand opRef) replayed {
	k := seq + enc(cand)
	if v, ok := s.memo[k]; ok {
		return v
	}
	s.replays++
	var res replayed
	ok := report.WithTimeout(watchdog, func() {
		w, err := newWorld(s.c)
		if err != nil {
			res.out = "harness: " + err.Error()
			return
		}
		for i := 0; i+1 < len(seq); i += 2 {
			g, j := int(seq[i]), int(seq[i+1])
			w.do(g, &s.c.Threads[g][j])
		}
		if cand.g == finalG {
			res.out = guardCall(w.observe)
		} else {
			res.out = w.do(cand.g, &s.c.Threads[cand.g][cand.j])
		}
		res.fp = guardCall(func() string { return fingerprint(w.state()) })
	})
	if !ok {
		s.blocked = true
		res = replayed{out: "blocked"}
	}
	if strings.HasPrefix(res.out, "panic:") && cand.g != finalG {
		s.panicked[metaOf(s.c, &s.c.Threads[cand.g][cand.j]).M] = true
	}
	s.memo[k] = res
	return res
}

func sameResult(a, b string) bool {
	if strings.HasPrefix(a, "panic:") && strings.HasPrefix(b, "panic:") {
		return true
	}
	return a == b
}

func (s *seqSpec) model() porcupine.Model {
	return porcupine.Model{
		Init: func() interface{} { return linState{} },
		Step: func(state, input, output interface{}) (bool, interface{}) {
			st := state.(linState)
			in := input.(opRef)
			if s.blocked {
				return false, st
			}
			res := s.replay(st.full, in)
			if !sameResult(res.out, output.(string)) {
				return false, st
			}
			return true, linState{fp: res.fp, full: st.full + enc(in)}
		},
		// Two prefixes are the same state when the replayed instances are structurally identical. (porcupine
		// only compares states of prefixes that linearized the same set of calls.)
		Equal: func(a, b interface{}) bool { return a.(linState).fp == b.(linState).fp },
		Hash: func(a interface{}) uint64 {
			h := fnv.New64a()
			h.Write([]byte(a.(linState).fp))
			return h.Sum64()
		},
	}
}

type linVerdict struct {
	res     porcupine.CheckResult
	replays int
	best    string // longest partial linearization (for the message)
	spec    *seqSpec
}

var linBudget = 8 * time.Second

func checkLinearizable(c *Case, o *outcome) *linVerdict {
	s := newSeqSpec(c)
	var hist []porcupine.Operation
	var maxStamp int64
	for g := range o.recs {
		for j, r := range o.recs[g] {
			hist = append(hist, porcupine.Operation{ClientId: g, Input: opRef{g, j}, Call: r.Inv, Output: r.Out, Return: r.Ret})
			if r.Ret > maxStamp {
				maxStamp = r.Ret
			}
		}
	}
	hist = append(hist, porcupine.Operation{ClientId: len(o.recs), Input: opRef{finalG, 0}, Call: maxStamp + 1, Output: o.final, Return: maxStamp + 2})
	res, info := porcupine.CheckOperationsVerbose(s.model(), hist, linBudget)
	v := &linVerdict{res: res, replays: s.replays, spec: s}
	if res == porcupine.Illegal {
		longest := []int{}
		for _, part := range info.PartialLinearizations() {
			for _, lin := range part {
				if len(lin) > len(longest) {
					longest = lin
				}
			}
		}
		var b strings.Builder
		for _, idx := range longest {
			r := hist[idx].Input.(opRef)
			if r.g == finalG {
				b.WriteString(" final")
			} else {
				fmt.Fprintf(&b, " g%d#%d", r.g, r.j)
			}
		}
		v.best = fmt.Sprintf("longest sequential order that explains a prefix (%d of %d calls):%s", len(longest), len(hist), b.String())
	}
	return v
}

// sequentialOrders: the recorded calls in a few total orders (by return stamp, by invoke stamp, thread
// after thread); used to decide whether a panic seen in a large program also exists sequentially.
func sequentialOrders(o *outcome) []string {
	type e struct {
		r        opRef
		inv, ret int64
	}
	var all []e
	for g := range o.recs {
		for j, r := range o.recs[g] {
			all = append(all, e{opRef{g, j}, r.Inv, r.Ret})
		}
	}
	build := func() string {
		var b strings.Builder
		for _, x := range all {
			b.WriteString(enc(x.r))
		}
		return b.String()
	}
	var out []string
	sort.SliceStable(all, func(i, j int) bool { return all[i].ret < all[j].ret })
	out = append(out, build())
	sort.SliceStable(all, func(i, j int) bool { return all[i].inv < all[j].inv })
	out = append(out, build())
	sort.SliceStable(all, func(i, j int) bool {
		if all[i].r.g != all[j].r.g {
			return all[i].r.g < all[j].r.g
		}
		return all[i].r.j < all[j].r.j
	})
	out = append(out, build())
	return out
}

// panicsSequentially replays whole orders and reports whether the call at ref panics in one of them.
func panicsSequentially(c *Case, o *outcome, ref opRef) bool {
	for _, seq := range sequentialOrders(o) {
		hit := false
		report.WithTimeout(watchdog, func() {
			w, err := newWorld(c)
			if err != nil {
				return
			}
			for i := 0; i+1 < len(seq); i += 2 {
				g, j := int(seq[i]), int(seq[i+1])
				out := w.do(g, &c.Threads[g][j])
				if g == ref.g && j == ref.j && strings.HasPrefix(out, "panic:") {
					hit = true
					return
				}
			}
		})
		if hit {
			return true
		}
	}
	return false
}
