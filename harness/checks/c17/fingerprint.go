package c17

import (
	"crypto/sha256"
	"encoding/binary"
	"hash"
	"reflect"
	"sort"
	"sync"

	"github.com/protolambda/zrnt/eth2/beacon/common"
)

// fingerprint is a structural digest of everything reachable from v, unexported fields included:
// scalars by value, slices by length, capacity and elements, maps by sorted (key digest, value),
// pointers and maps by first-visit number (so aliasing is part of the digest). Left out, because they
// cannot influence a later call of a quiescent instance or are constants of the case: mutex words,
// func values, unsafe pointers (the lazily decompressed point of a CachedPubkey is a cache of its
// compressed bytes), the *common.Spec and the *Case.
//
// It is used for one thing only: porcupine may treat two sequential prefixes as the same state when
// their replayed instances (plus what each goroutine holds) have the same fingerprint. Leaving too
// much in only costs search time; leaving a behaviour-relevant field out could prune a valid
// linearization, which is why nothing but the items above is left out.
func fingerprint(v any) string {
	f := &fper{h: sha256.New(), seen: map[uintptr]int{}}
	f.walk(reflect.ValueOf(v), 0)
	return string(f.h.Sum(nil)[:16])
}

type fper struct {
	h    hash.Hash
	seen map[uintptr]int
	buf  [9]byte
}

var (
	specType    = reflect.TypeOf((*common.Spec)(nil))
	caseType    = reflect.TypeOf((*Case)(nil))
	mutexType   = reflect.TypeOf(sync.Mutex{})
	rwMutexType = reflect.TypeOf(sync.RWMutex{})
)

func (f *fper) tag(t byte, n uint64) {
	f.buf[0] = t
	binary.LittleEndian.PutUint64(f.buf[1:], n)
	f.h.Write(f.buf[:])
}

func (f *fper) walk(v reflect.Value, depth int) {
	if !v.IsValid() {
		f.tag('z', 0)
		return
	}
	if depth > 200 {
		panic("fingerprint: structure too deep")
	}
	t := v.Type()
	if t == mutexType || t == rwMutexType {
		return
	}
	switch v.Kind() {
	case reflect.Bool:
		if v.Bool() {
			f.tag('b', 1)
		} else {
			f.tag('b', 0)
		}
	case reflect.Int, reflect.Int8, reflect.Int16, reflect.Int32, reflect.Int64:
		f.tag('i', uint64(v.Int()))
	case reflect.Uint, reflect.Uint8, reflect.Uint16, reflect.Uint32, reflect.Uint64, reflect.Uintptr:
		f.tag('u', v.Uint())
	case reflect.String:
		f.tag('s', uint64(v.Len()))
		f.h.Write([]byte(v.String()))
	case reflect.Array:
		f.tag('a', uint64(v.Len()))
		if t.Elem().Kind() == reflect.Uint8 && v.CanAddr() {
			f.h.Write(v.Bytes())
			return
		}
		for i := 0; i < v.Len(); i++ {
			f.walk(v.Index(i), depth+1)
		}
	case reflect.Slice:
		if v.IsNil() {
			f.tag('l', ^uint64(0))
			return
		}
		f.tag('l', uint64(v.Len()))
		f.tag('c', uint64(v.Cap()))
		if t.Elem().Kind() == reflect.Uint8 {
			f.h.Write(v.Bytes())
			return
		}
		for i := 0; i < v.Len(); i++ {
			f.walk(v.Index(i), depth+1)
		}
	case reflect.Struct:
		f.tag('{', uint64(v.NumField()))
		for i := 0; i < v.NumField(); i++ {
			f.walk(v.Field(i), depth+1)
		}
	case reflect.Interface:
		if v.IsNil() {
			f.tag('n', 0)
			return
		}
		f.tag('I', 0)
		f.h.Write([]byte(v.Elem().Type().String()))
		f.walk(v.Elem(), depth+1)
	case reflect.Pointer:
		if v.IsNil() {
			f.tag('n', 1)
			return
		}
		if t == specType || t == caseType {
			f.tag('k', 0)
			return
		}
		p := v.Pointer()
		if n, ok := f.seen[p]; ok {
			f.tag('@', uint64(n))
			return
		}
		f.seen[p] = len(f.seen)
		f.tag('*', 0)
		f.walk(v.Elem(), depth+1)
	case reflect.Map:
		if v.IsNil() {
			f.tag('n', 2)
			return
		}
		p := v.Pointer()
		if n, ok := f.seen[p]; ok {
			f.tag('@', uint64(n))
			return
		}
		f.seen[p] = len(f.seen)
		// keys are scalars / arrays / small structs of those in every component here: digest each key on its
		// own (no pointer numbering inside keys), sort, then walk the values in that order
		type kv struct {
			k string
			v reflect.Value
		}
		kvs := make([]kv, 0, v.Len())
		it := v.MapRange()
		for it.Next() {
			kf := &fper{h: sha256.New(), seen: map[uintptr]int{}}
			kf.walk(it.Key(), depth+1)
			kvs = append(kvs, kv{string(kf.h.Sum(nil)), it.Value()})
		}
		sort.Slice(kvs, func(i, j int) bool { return kvs[i].k < kvs[j].k })
		f.tag('m', uint64(len(kvs)))
		for _, e := range kvs {
			f.h.Write([]byte(e.k))
			f.walk(e.v, depth+1)
		}
	case reflect.Func, reflect.UnsafePointer, reflect.Chan:
		// not part of the state (see above)
	default:
		panic("fingerprint: unsupported kind " + v.Kind().String())
	}
}
