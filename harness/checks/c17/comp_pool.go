package c17

import (
	"context"
	"crypto/sha256"
	"fmt"
	"reflect"
	"sort"
	"strings"
	"unsafe"

	"github.com/protolambda/zrnt/eth2/beacon/altair"
	"github.com/protolambda/zrnt/eth2/beacon/common"
	"github.com/protolambda/zrnt/eth2/beacon/phase0"
	"github.com/protolambda/zrnt/eth2/configs"
	"github.com/protolambda/zrnt/eth2/pool"
	"github.com/protolambda/ztyp/view"
)

// Inputs are built exactly as in check C20 (same universe, same deterministic tagged signatures: the
// pools neither verify nor aggregate signatures).

var poolSpec = configs.Minimal

func tag(parts ...any) (r common.Root) { return sha256.Sum256([]byte(fmt.Sprint(parts...))) }

func sig96(parts ...any) (s common.BLSSignature) {
	h := sha256.Sum256([]byte(fmt.Sprint(parts...)))
	for i := 0; i < 3; i++ {
		x := sha256.Sum256(append(h[:], byte(i)))
		copy(s[32*i:], x[:])
	}
	return
}

func idOf(s string) string {
	h := sha256.Sum256([]byte(s))
	return fmt.Sprintf("%x", h[:6])
}

func idList(ids []string) string {
	sort.Strings(ids)
	return "{" + strings.Join(ids, " ") + "}"
}

// ---------------------------------------------------------------- attestation pool

func (c *Case) size(e, s, ci int) int {
	i := e*4 + s*2 + ci
	if i < 0 || i >= len(c.Sizes) || c.Sizes[i] < 1 {
		return 3
	}
	return c.Sizes[i]
}

func (c *Case) committee(e, s, ci int) common.CommitteeIndices {
	total, start := 0, 0
	for ss := 0; ss < 2; ss++ {
		for cc := 0; cc < 2; cc++ {
			if ss*2+cc < s*2+ci {
				start += c.size(e, ss, cc)
			}
			total += c.size(e, ss, cc)
		}
	}
	out := make(common.CommitteeIndices, c.size(e, s, ci))
	for k := range out {
		out[k] = common.ValidatorIndex((start + k + 5*e) % total)
	}
	return out
}

func (c *Case) data(e, s, ci, v int) phase0.AttestationData {
	ep := c.BaseEpoch + uint64(e)
	src := uint64(0)
	if ep > 0 {
		src = ep - 1
	}
	bv, tv := v, 0
	if v >= 2 {
		bv, tv = 0, v
	}
	return phase0.AttestationData{
		Slot:            common.Slot(ep*uint64(poolSpec.SLOTS_PER_EPOCH) + uint64(s)),
		Index:           common.CommitteeIndex(ci),
		BeaconBlockRoot: tag("bbr", ep, s, bv),
		Source:          common.Checkpoint{Epoch: common.Epoch(src), Root: tag("src", src)},
		Target:          common.Checkpoint{Epoch: common.Epoch(ep), Root: tag("tgt", ep, tv)},
	}
}

func encodeBitlist(bits string) []byte {
	out := make([]byte, len(bits)/8+1)
	for i := range bits {
		if bits[i] == '1' {
			out[i>>3] |= 1 << uint(i&7)
		}
	}
	out[len(bits)>>3] |= 1 << uint(len(bits)&7)
	return out
}

func dataID(d *phase0.AttestationData) string {
	return fmt.Sprintf("%d/%d/%x/%d/%x/%d/%x", d.Slot, d.Index, d.BeaconBlockRoot[:4], d.Source.Epoch, d.Source.Root[:4], d.Target.Epoch, d.Target.Root[:4])
}

func attID(a *phase0.Attestation) string {
	return idOf(fmt.Sprintf("%s|%x|%x", dataID(&a.Data), []byte(a.AggregationBits), a.Signature[:]))
}

type attWorld struct {
	c *Case
	p *pool.AttestationPool
}

func newAttWorld(c *Case) (world, error) {
	return &attWorld{c: c, p: pool.NewAttestationPool(poolSpec)}, nil
}

func (w *attWorld) search(op *Op) string {
	var opts []pool.AttSearchOption
	if op.FSlot != nil {
		opts = append(opts, pool.WithSlot(common.Slot(*op.FSlot)))
	}
	if op.FComm != nil {
		opts = append(opts, pool.WithCommittee(common.CommitteeIndex(*op.FComm)))
	}
	got := w.p.Search(opts...)
	ids := make([]string, len(got))
	for i, a := range got {
		if a == nil {
			ids[i] = "nil"
			continue
		}
		ids[i] = attID(a)
	}
	return idList(ids)
}

func (w *attWorld) do(g int, op *Op) string {
	return guardCall(func() string {
		switch op.K {
		case "add":
			d := w.c.data(op.E, op.S, op.C, op.V)
			att := &phase0.Attestation{AggregationBits: phase0.AttestationBits(encodeBitlist(op.Bits)), Data: d, Signature: sig96("att", dataID(&d), op.Bits)}
			return errName(w.p.AddAttestation(context.Background(), att, w.c.committee(op.E, op.S, op.C)))
		case "search":
			return w.search(op)
		case "prune":
			w.p.Prune(common.Epoch(op.Epoch))
			return ""
		}
		return "harness: unknown attestation pool call " + op.K
	})
}

func (w *attWorld) state() any { return w.p }

func (w *attWorld) observe() string { return w.search(&Op{K: "search"}) }

func attMeta(c *Case, op *Op) meta {
	switch op.K {
	case "add":
		return meta{M: "AddAttestation", Write: true, Keys: []string{fmt.Sprint("e", op.E)}}
	case "search":
		return meta{M: "Search", Keys: []string{"*"}}
	case "prune":
		return meta{M: "Prune", Write: true, Void: true, Keys: []string{"*"}}
	}
	return meta{M: op.K, Write: true, Keys: []string{"*"}}
}

// ---------------------------------------------------------------- exit / slashing pools

// Items are identified by their signature bytes: the tagged signature is a hash of every argument the
// item was built from, and the pools never touch it.
func sigID(s *common.BLSSignature) string { return fmt.Sprintf("%x", s[:6]) }

func buildExit(a *Op) *phase0.SignedVoluntaryExit {
	return &phase0.SignedVoluntaryExit{
		Message:   phase0.VoluntaryExit{Epoch: common.Epoch(a.Epoch), ValidatorIndex: common.ValidatorIndex(a.Val)},
		Signature: sig96("exit", a.Val, a.Epoch, a.Variant),
	}
}

func buildPropSlashing(a *Op) *phase0.ProposerSlashing {
	h := func(k int) common.SignedBeaconBlockHeader {
		return common.SignedBeaconBlockHeader{
			Message: common.BeaconBlockHeader{Slot: common.Slot(a.Epoch), ProposerIndex: common.ValidatorIndex(a.Val),
				ParentRoot: tag("parent", a.Epoch), StateRoot: tag("state", a.Epoch, k, a.Variant), BodyRoot: tag("body", k, a.Variant)},
			Signature: sig96("hdr", a.Val, a.Epoch, k, a.Variant),
		}
	}
	return &phase0.ProposerSlashing{SignedHeader1: h(1), SignedHeader2: h(2)}
}

func buildAttSlashing(a *Op) *phase0.AttesterSlashing {
	ia := func(k int, idx []uint64) phase0.IndexedAttestation {
		ci := make(common.CommitteeIndices, len(idx))
		for i, v := range idx {
			ci[i] = common.ValidatorIndex(v)
		}
		d := phase0.AttestationData{Slot: common.Slot(a.Epoch * uint64(poolSpec.SLOTS_PER_EPOCH)), Index: 0, BeaconBlockRoot: tag("asl", a.Epoch, k, a.Variant),
			Source: common.Checkpoint{Epoch: 0, Root: tag("src", 0)}, Target: common.Checkpoint{Epoch: common.Epoch(a.Epoch), Root: tag("tgt", a.Epoch, k)}}
		return phase0.IndexedAttestation{AttestingIndices: ci, Data: d, Signature: sig96("asl", a.Epoch, k, a.Variant, idx)}
	}
	return &phase0.AttesterSlashing{Attestation1: ia(1, a.Idx1), Attestation2: ia(2, a.Idx2)}
}

type opsWorld struct {
	inst any // the pool
	add  func(a *Op) error
	all  func() []string
}

func (w *opsWorld) state() any { return w.inst }

func newOpsWorld(c *Case) (world, error) {
	ctx := context.Background()
	w := &opsWorld{}
	switch c.Comp {
	case "exit":
		p := pool.NewVoluntaryExitPool(poolSpec)
		w.inst = p
		w.add = func(a *Op) error { return p.AddVoluntaryExit(ctx, buildExit(a)) }
		w.all = func() (out []string) {
			raw := p.All()
			for _, x := range raw {
				out = append(out, sigID(&x.Signature))
			}
			ownSlice(raw)
			return
		}
	case "propslash":
		p := pool.NewProposerSlashingPool(poolSpec)
		w.inst = p
		w.add = func(a *Op) error { return p.AddProposerSlashing(ctx, buildPropSlashing(a)) }
		w.all = func() (out []string) {
			raw := p.All()
			for _, x := range raw {
				out = append(out, sigID(&x.SignedHeader1.Signature)+sigID(&x.SignedHeader2.Signature))
			}
			ownSlice(raw)
			return
		}
	case "attslash":
		p := pool.NewAttesterSlashingPool(poolSpec)
		w.inst = p
		w.add = func(a *Op) error { return p.AddAttesterSlashing(ctx, buildAttSlashing(a)) }
		w.all = func() (out []string) {
			raw := p.All()
			for _, x := range raw {
				out = append(out, sigID(&x.Attestation1.Signature)+sigID(&x.Attestation2.Signature))
			}
			ownSlice(raw)
			return
		}
	}
	return w, nil
}

func (w *opsWorld) do(g int, op *Op) string {
	return guardCall(func() string {
		switch op.K {
		case "add":
			return errName(w.add(op))
		case "all":
			return idList(w.all())
		}
		return "harness: unknown pool call " + op.K
	})
}

func (w *opsWorld) observe() string { return idList(w.all()) }

func opsMeta(c *Case, op *Op) meta {
	name := map[string]string{"exit": "AddVoluntaryExit", "propslash": "AddProposerSlashing", "attslash": "AddAttesterSlashing"}[c.Comp]
	if op.K == "add" {
		return meta{M: name, Write: true, Keys: []string{fmt.Sprint("v", op.Val)}}
	}
	return meta{M: "All", Keys: []string{"*"}}
}

// ---------------------------------------------------------------- sync committee pool

type syncWorld struct {
	p *pool.SyncCommitteePool
}

func newSyncWorld(c *Case) (world, error) {
	return &syncWorld{p: pool.NewSyncCommitteePool(poolSpec)}, nil
}

func (w *syncWorld) state() any { return w.p }

var members8 = []common.ValidatorIndex{0, 1, 2, 3, 4, 5, 6, 7}

func (w *syncWorld) do(g int, a *Op) string {
	ctx := context.Background()
	return guardCall(func() string {
		switch a.K {
		case "reset":
			w.p.Reset(common.Slot(a.Slot))
			return ""
		case "msg":
			msg := &altair.SyncCommitteeMessage{Slot: common.Slot(a.Slot), BeaconBlockRoot: tag("blk", a.Slot, a.Root), ValidatorIndex: common.ValidatorIndex(a.Val), Signature: sig96("scm", a.Slot, a.Root, a.Val)}
			return errName(w.p.AddSyncCommitteeMessage(ctx, msg))
		case "contrib":
			ct := &altair.SyncCommitteeContribution{Slot: common.Slot(a.Slot), BeaconBlockRoot: tag("blk", a.Slot, a.Root), SubcommitteeIndex: view.Uint64View(a.Subnet),
				AggregationBits: altair.SyncCommitteeSubnetBits{a.SBits}, Signature: sig96("scc", a.Slot, a.Root, a.Subnet, a.SBits)}
			return errName(w.p.AddSyncCommitteeContribution(ctx, ct))
		case "packc":
			ct, err := w.p.PackContribution(ctx, common.Slot(a.Slot), tag("blk", a.Slot, a.Root), a.Subnet, members8)
			return fmt.Sprintf("%v,%s", ct != nil, errName(err))
		case "packa":
			ag, err := w.p.PackAggregate(ctx, common.Slot(a.Slot), tag("blk", a.Slot, a.Root), members8)
			return fmt.Sprintf("%v,%s", ag != nil, errName(err))
		}
		return "harness: unknown sync pool call " + a.K
	})
}

// observe reads the six unexported buffers (read-only, by field name, as C20 does: the pool has no
// query). Called only when no other goroutine uses the pool.
func (w *syncWorld) observe() string {
	v := reflect.ValueOf(w.p).Elem()
	var b strings.Builder
	cs := v.FieldByName("currentSlot")
	if !cs.IsValid() || cs.Kind() != reflect.Uint64 {
		return "harness: field currentSlot missing"
	}
	fmt.Fprintf(&b, "slot=%d", cs.Uint())
	for _, name := range []string{"prevMsgs", "currentMsgs", "nextMsgs"} {
		f := v.FieldByName(name)
		if !f.IsValid() || f.Type() != reflect.TypeOf(pool.SyncCommitteeMessages(nil)) {
			return "harness: field " + name + " missing or retyped"
		}
		msgs := *(*pool.SyncCommitteeMessages)(unsafe.Pointer(f.UnsafeAddr()))
		var ids []string
		for k, m := range msgs {
			if m == nil {
				ids = append(ids, fmt.Sprintf("%d:nil", k))
				continue
			}
			ids = append(ids, idOf(fmt.Sprintf("%d|%d|%x|%d|%x", k, m.Slot, m.BeaconBlockRoot[:], m.ValidatorIndex, m.Signature[:])))
		}
		fmt.Fprintf(&b, " %s=%s", name, idList(ids))
	}
	for _, name := range []string{"prevContribs", "currentContribs", "nextContribs"} {
		f := v.FieldByName(name)
		if !f.IsValid() || f.Type() != reflect.TypeOf(pool.SyncCommitteeContributions(nil)) {
			return "harness: field " + name + " missing or retyped"
		}
		cm := *(*pool.SyncCommitteeContributions)(unsafe.Pointer(f.UnsafeAddr()))
		var ids []string
		for root, bySub := range cm {
			for sub, list := range bySub {
				for _, c := range list {
					if c == nil {
						ids = append(ids, "nil")
						continue
					}
					ids = append(ids, idOf(fmt.Sprintf("%x|%d|%x|%x", root[:], sub, []byte(c.AggregationBits), c.Signature[:])))
				}
			}
		}
		fmt.Fprintf(&b, " %s=%s", name, idList(ids))
	}
	return b.String()
}

func syncMeta(op *Op) meta {
	switch op.K {
	case "reset":
		return meta{M: "Reset", Write: true, Void: true, Keys: []string{"*"}}
	case "msg":
		return meta{M: "AddSyncCommitteeMessage", Write: true, Keys: []string{fmt.Sprint("s", op.Slot)}}
	case "contrib":
		return meta{M: "AddSyncCommitteeContribution", Write: true, Keys: []string{fmt.Sprint("s", op.Slot)}}
	case "packc":
		return meta{M: "PackContribution", Keys: []string{"*"}}
	case "packa":
		return meta{M: "PackAggregate", Keys: []string{"*"}}
	}
	return meta{M: op.K, Write: true, Keys: []string{"*"}}
}

// ownSlice treats a slice a query handed out as the caller's own: every element of its backing array, up to
// capacity, is overwritten (what appending to or sorting the result does). A pool that hands out its own
// storage then races with concurrent adds (race detector) or returns the junk later (linearizability).
func ownSlice[T any](s []*T) {
	full := s[:cap(s)]
	for i := range full {
		full[i] = nil
	}
}
