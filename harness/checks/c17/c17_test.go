// C17 — components documented as shared are safe under concurrent use.
//
// Technique: rapid-generated CONCURRENT PROGRAMS (component, 2-8 goroutines, a call list with
// arguments per goroutine, an interleaving bias = channel / spinning / staggered release + a per-call
// runtime.Gosched() pattern; a third of the programs start every goroutine on the same key) run on ONE
// shared instance of
//
//	fc        ProtoForkChoice through the forkchoice wrapper: ProcessSlot, ProcessBlock, ProcessAttestation,
//	          UpdateJustified (balances callback, prune sink), SetPin, Pin, Head, FindHead, InSubtree,
//	          CanonicalChain, ClosestToSlot, CanonAtSlot, GetSlot, Search, Justified, Finalized
//	          (histories drawn by fcsim.Gen: a sequential prefix builds a tree, the rest is dealt to the goroutines)
//	pubkey    one PubkeyCache shared by all goroutines: Pubkey(i) + CachedPubkey.Pubkey() on the key handed
//	          out (lazy decompression; valid and undecodable keys), the same pointer used again later,
//	          ValidatorIndex(pub), AddValidator (appends that reallocate the backing slice, no-ops, conflicting
//	          pairs that fork out, indices beyond the end) on the shared handle and on the forked handle a
//	          goroutine got back
//	att       AttestationPool: AddAttestation / Search(filters) / Prune
//	exit, propslash, attslash   Add* / All
//	sync      SyncCommitteePool: Reset / AddSyncCommitteeMessage / AddSyncCommitteeContribution / Pack*
//
// in two sizes. LARGE (2-8 goroutines x 5-40 calls): oracle 1 = the race detector stays silent (the
// binary is built with -race, GORACE=halt_on_error=1: a report kills the shard and the driver promotes
// the in-flight program to the violation), oracle 2 = every call returns within a 20 s watchdog (believed
// only if it repeats on a second run). The goroutines of a large program share NO synchronisation
// besides the code under test (stamps are goroutine-local clock readings), so the detector judges the whole
// happens-before class of the executed schedule. SMALL (<=4 goroutines x <=8 calls): oracles 1, 2 and
// 3 = the recorded history (call, arguments, canonical result, invoke/return stamps from one atomic
// counter, plus a final read-only sweep) is LINEARIZABLE (porcupine). The sequential specification is
// the component itself: the model state is the sequence of calls linearized so far, Step replays that
// sequence plus the candidate on a fresh instance in one goroutine and compares the candidate's result
// (memoised per sequence). Two sequences that linearized the same set of calls count as the same state when
// the replayed instances have the same structural fingerprint (fingerprint.go: every reachable field, unexported
// ones included, aliasing included; only mutex words, funcs, the spec and the decompressed-point cache left out).
// Results are canonical: unordered result sets sorted, errors by presence, roots/keys as letters.
// A call that panics or blocks in a purely sequential order too is no C17 matter: it is matched by the
// replay (small) or looked for in three sequential orders (large) and counted under excluded_known.
//
// Episode (harness, not code): the first version serialised the decompressed point handed out by
// CachedPubkey.Pubkey() to compare it; blsu's Serialize normalises the point in place (kilic Affine(p) assigns
// p to itself), so two goroutines "reading" the same point raced inside the dependency. The harness now
// serialises a private copy.
//
// A failure that depends on the schedule may not reproduce on the first try: the replay path
// (`check C17 --replay f`) runs the program up to 200 times and stops at the first failure; committed
// regress programs are run 40 times each at the start of every run.
//
// Sensitivity (tools/trymut.py C17 <file> <old> <new>, quick tier, seed 1, 5 runs each, with C17_NOREGRESS=1 so
// that the committed regress programs do not help: the generator alone has to find it). Caught = exit 1.
//
//	M1  forkchoice.go        ProcessAttestation: `fc.mu.Lock()` + `defer fc.mu.Unlock()` removed             5/5 race report (once: fatal "concurrent map read and map write")
//	M2  forkchoice.go        GetSlot: `fc.mu.RLock()` + `defer fc.mu.RUnlock()` removed                      5/5 race report
//	M3  voluntary_exits.go   AddVoluntaryExit: `vep.Lock()` + `defer vep.Unlock()` removed                   5/5 race report
//	M4  bls.go               CachedPubkey repair 2bebd60 reverted (plain lazy write of `decompressed`)         5/5 race report
//	M5  validator_pubkeys.go AddValidator looks up under RLock, releases, then appends under Lock (303fa24 undone) 5/5 pubkey/non-linearizable (no race to report)
//	M6  attestations.go      Search without the read lock (476d519 reverted)                                  5/5 race report
//	M7  sync_committees.go   Reset without the lock (f4bbec8 reverted)                                        5/5 race report
//	M8  forkchoice.go        Head under `fc.mu.RLock()` only (two Heads apply pending votes at once)          5/5 race report
//	M9  voluntary_exits.go   AddVoluntaryExit checks under RLock, releases, stores under Lock (check-then-act) 5/5 exit/non-linearizable (no race to report)
//	M10 proposer_slashings.go All without the read lock                                                       5/5 race report
//	M11 validator_pubkeys.go Pubkey(i) takes the read lock a second time through ValidatorIndex (deadlocks only when a
//	                         writer queues up between the two RLocks; sequentially harmless)                  1/1 pubkey/blocked (355 s: 3 x 20 s watchdog per verdict + shrinking)
//
// Budgets (16 cores shared with other checks at load 50-120 while measured): quick 4 shards ~ 3-4 CPU-minutes,
// 90-125 s wall under that load (22-55 s when the box was calmer); thorough 8 shards 58 CPU-minutes, 16 min
// wall under load ~120.
package c17

import (
	"encoding/json"
	"fmt"
	"os"
	"path/filepath"
	"runtime/debug"
	"sort"
	"strings"
	"testing"
	"time"

	"github.com/anishathalye/porcupine"
	"github.com/protolambda/zrnt/eth2/beacon/common"
	"pgregory.net/rapid"

	"zrntverif/fcsim"
	"zrntverif/report"
)

var components = []string{"fc", "pubkey", "att", "exit", "propslash", "attslash", "sync"}

// ---------------------------------------------------------------- generators

func uni(t *rapid.T, n int, l string) int { // uniform in [0,n): rapid's IntRange is biased to the ends
	if n <= 1 {
		return 0
	}
	for {
		v := 0
		for b := 1; b < n; b <<= 1 {
			v <<= 1
			if rapid.Bool().Draw(t, l) {
				v |= 1
			}
		}
		if v < n {
			return v
		}
	}
}

func between(t *rapid.T, lo, hi int, l string) int { return lo + uni(t, hi-lo+1, l) }

func genShape(t *rapid.T, size string) []int {
	var per []int
	if size == "small" {
		g := between(t, 2, 4, "goroutines")
		for i := 0; i < g; i++ {
			per = append(per, between(t, 1, 8, "calls"))
		}
		return per
	}
	g := between(t, 2, 8, "goroutines")
	for i := 0; i < g; i++ {
		per = append(per, between(t, 5, 40, "calls"))
	}
	return per
}

var yieldPatterns = []string{"0", "0", "1", "2", "3", "10", "01", "1000", "0002", "30"}

func genSched(t *rapid.T, g int) Sched {
	s := Sched{Release: "barrier"}
	s.SlowGraph = []int{0, 0, 1, 2, 2, 3}[uni(t, 6, "slow_graph")]
	switch uni(t, 6, "release") {
	case 0, 1:
		s.Release = "spin"
	case 2:
		s.Release = "stagger"
		s.Lag = between(t, 1, 30, "lag")
	}
	for i := 0; i < g; i++ {
		if uni(t, 4, "yield_kind") == 0 {
			n := between(t, 1, 6, "yield_len")
			b := make([]byte, n)
			for k := range b {
				b[k] = byte('0' + uni(t, 4, "yield"))
			}
			s.Yield = append(s.Yield, string(b))
		} else {
			s.Yield = append(s.Yield, yieldPatterns[uni(t, len(yieldPatterns), "yield_pat")])
		}
	}
	return s
}

// deal hands the calls, in order, to goroutines with the given quotas (so a goroutine's list keeps the
// order in which the calls were drawn).
func deal(t *rapid.T, ops []Op, per []int) [][]Op {
	th := make([][]Op, len(per))
	left := append([]int{}, per...)
	for _, op := range ops {
		g := uni(t, len(per), "to")
		for k := 0; k < len(per) && left[g] == 0; k++ {
			g = (g + 1) % len(per)
		}
		if left[g] == 0 {
			break
		}
		left[g]--
		th[g] = append(th[g], op)
	}
	var out [][]Op
	for _, l := range th {
		if len(l) > 0 {
			out = append(out, l)
		}
	}
	return out
}

func total(per []int) int {
	n := 0
	for _, p := range per {
		n += p
	}
	return n
}

var fcWeights = map[string]int{fcsim.KBlock: 18, fcsim.KSlot: 6, fcsim.KAtt: 18, fcsim.KUpd: 8, fcsim.KPin: 3, fcsim.KHead: 10, fcsim.KFHead: 4,
	fcsim.KChain: 4, fcsim.KInSub: 5, fcsim.KClosest: 4, fcsim.KCanon: 5, fcsim.KGetSlot: 9, fcsim.KSearch: 4}

func genFc(t *rapid.T, size string) *Case {
	per := genShape(t, size)
	setup := between(t, 3, 24, "setup")
	n := setup + total(per)
	fc := fcsim.Gen(t, fcsim.Profile{MinOps: n, MaxOps: n, MaxNodes: 40, MaxVals: 8, W: fcWeights, Sinks: []string{"ok", "ok", "nil"}})
	if len(fc.Ops) < setup+2 {
		setup = len(fc.Ops) / 2
	}
	c := &Case{Comp: "fc", Size: size, FcCfg: &fc.Cfg}
	var conc []Op
	for i := range fc.Ops {
		o := fc.Ops[i]
		op := Op{K: o.K, Fc: &o}
		if i < setup {
			c.Setup = append(c.Setup, op)
			continue
		}
		if o.K == fcsim.KGetSlot { // the three getters fcsim has no word for
			switch uni(t, 5, "getter") {
			case 2:
				op = Op{K: kJustified, Fc: &fcsim.Op{K: kJustified}}
			case 3:
				op = Op{K: kFinalized, Fc: &fcsim.Op{K: kFinalized}}
			case 4:
				op = Op{K: kGetPin, Fc: &fcsim.Op{K: kGetPin}}
			}
		}
		conc = append(conc, op)
	}
	c.Threads = deal(t, conc, per)
	c.Sched = genSched(t, len(c.Threads))
	return c
}

// tourFcCheckThenAct: directed programs for validate-then-act methods of the wrapper. A tree with two branches
// (1@0 <- 2@1 <- 3@4 <- 4@5 and 5@2 on 2); one goroutine finalizes the first branch (which prunes the second and
// everything before 3), another pins a node that this finalization removes or keeps, a third reads. Sequentially
// either the pin comes first (and a finalization whose trigger lies outside the pinned subtree is refused) or
// the finalization comes first (and a pruned node cannot be pinned): both succeeding is no sequential order.
func tourFcCheckThenAct(t *rapid.T) *Case {
	bal := []uint64{1, 2, 3, 1}
	b := fcsim.NewB(t, "ok", 0, bal)
	b.Block(1, 2, 1, 0, 0).Block(2, 3, 4, 1, 1).Block(3, 4, 5, 1, 1).Block(2, 5, 2, 0, 0).Att(0, 4, 5).Att(1, 5, 2).Att(2, 3, 4).Head()
	fc := b.Case()
	c := &Case{Comp: "fc", Size: "small", FcCfg: &fc.Cfg, Note: "tour:check-then-act"}
	for i := range fc.Ops {
		o := fc.Ops[i]
		c.Setup = append(c.Setup, Op{K: o.K, Fc: &o})
	}
	mk := func(o fcsim.Op) Op { return Op{K: o.K, Fc: &o} }
	pins := [][2]uint64{{5, 2}, {2, 2}, {2, 1}, {2, 3}, {5, 2}, {3, 4}, {4, 5}, {1, 0}}
	pin := pins[uni(t, len(pins), "pin")]
	j, f := fcsim.Cp{R: 3, E: 1}, fcsim.Cp{R: 3, E: 1}
	upd := mk(fcsim.Op{K: fcsim.KUpd, T: 4, J: &j, F: &f})
	setPin := mk(fcsim.Op{K: fcsim.KPin, R: int(pin[0]), S: pin[1]})
	head := mk(fcsim.Op{K: fcsim.KHead})
	getPin := Op{K: kGetPin, Fc: &fcsim.Op{K: kGetPin}}
	fin := Op{K: kFinalized, Fc: &fcsim.Op{K: kFinalized}}
	switch uni(t, 3, "shape") {
	case 0:
		c.Threads = [][]Op{{upd, head}, {setPin, getPin}}
	case 1:
		c.Threads = [][]Op{{upd}, {setPin, head}, {getPin, fin}}
	default:
		c.Threads = [][]Op{{head, upd}, {getPin, setPin, head}}
	}
	c.Sched = genSched(t, len(c.Threads))
	c.Sched.SlowGraph = []int{1, 2, 2, 3, 3}[uni(t, 5, "slow")]
	return c
}

// tourFcOverlappingUpdates: two or three UpdateJustified calls with DIFFERENT checkpoints overlap (and readers
// of the justified checkpoint beside them). In every sequential order the newest checkpoint is the one that
// stands at the end (an older update after a newer one is a no-op); an update that validates "is this newer?"
// under one lock acquisition and applies under another lets the older one win.
func tourFcOverlappingUpdates(t *rapid.T) *Case {
	bal := []uint64{1, 2, 3, 1}
	b := fcsim.NewB(t, "ok", 0, bal)
	b.Block(1, 2, 1, 0, 0).Block(2, 3, 4, 0, 0).Block(3, 4, 5, 1, 0).Block(4, 6, 8, 1, 0).Block(6, 7, 9, 2, 0).Block(7, 8, 12, 2, 0).Block(8, 9, 13, 3, 0).
		Att(0, 4, 5).Att(1, 7, 9).Att(2, 9, 13).Head()
	fc := b.Case()
	c := &Case{Comp: "fc", Size: "small", FcCfg: &fc.Cfg, Note: "tour:overlapping-updates"}
	for i := range fc.Ops {
		o := fc.Ops[i]
		c.Setup = append(c.Setup, Op{K: o.K, Fc: &o})
	}
	mk := func(o fcsim.Op) Op { return Op{K: o.K, Fc: &o} }
	fin := fcsim.Cp{R: 1, E: 0}
	j1, j2, j3 := fcsim.Cp{R: 3, E: 1}, fcsim.Cp{R: 6, E: 2}, fcsim.Cp{R: 8, E: 3}
	u1 := mk(fcsim.Op{K: fcsim.KUpd, T: 4, J: &j1, F: &fin})
	u2 := mk(fcsim.Op{K: fcsim.KUpd, T: 7, J: &j2, F: &fin})
	u3 := mk(fcsim.Op{K: fcsim.KUpd, T: 9, J: &j3, F: &fin})
	just := Op{K: kJustified, Fc: &fcsim.Op{K: kJustified}}
	head := mk(fcsim.Op{K: fcsim.KHead})
	switch uni(t, 4, "shape") {
	case 0:
		c.Threads = [][]Op{{u1}, {u2}}
	case 1:
		c.Threads = [][]Op{{u1, just}, {u2, head}}
	case 2:
		c.Threads = [][]Op{{u2}, {u3}, {just}}
	default:
		c.Threads = [][]Op{{u1}, {u2}, {u3}}
	}
	c.Sched = genSched(t, len(c.Threads))
	c.Sched.SlowGraph = []int{2, 3, 3}[uni(t, 3, "slow")]
	return c
}

func genPk(t *rapid.T, size string) *Case {
	per := genShape(t, size)
	c := &Case{Comp: "pubkey", Size: size, Empty: uni(t, 4, "empty") == 0}
	// registry sizes around the capacities of a slice grown one append at a time (1,2,4,8,16): the next
	// appends reallocate
	n := []int{0, 1, 2, 3, 3, 4, 4, 6, 7, 7, 8, 8, 12, 15, 16}[uni(t, 15, "reg")]
	perm := rapid.Permutation(seqInts(nLetters)).Draw(t, "letters")
	for _, k := range perm {
		if len(c.Reg) < n && k < nValid {
			c.Reg = append(c.Reg, k)
		}
	}
	used := map[int]bool{}
	for _, k := range c.Reg {
		used[k] = true
	}
	var freshLetters []int
	for _, k := range perm {
		if !used[k] {
			freshLetters = append(freshLetters, k)
		}
	}
	// the key most goroutines will try to put at index n+i: same pair from several goroutines = racing append / no-op
	pending := func(i int) int { return freshLetters[i%len(freshLetters)] }
	c.Threads = make([][]Op, len(per))
	for g := range per {
		adds := 0
		for j := 0; j < per[g]; j++ {
			base := n + adds
			op := Op{H: uni(t, 5, "handle") / 2}
			if op.H > 1 {
				op.H = 1
			}
			switch k := uni(t, 100, "kind"); {
			case k < 38:
				op.K = "add"
				switch ik := uni(t, 100, "index_kind"); {
				case ik < 55:
					op.I = uint64(base)
				case ik < 72 && base > 0:
					op.I = uint64(uni(t, base, "known"))
				case ik < 87:
					op.I = uint64(base + 1)
				case ik < 93 && base > 0:
					op.I = uint64(base - 1)
				case ik < 97:
					op.I = uint64(base + 2 + uni(t, 3, "beyond"))
				default:
					op.I = []uint64{1 << 32, 1<<63 - 1, ^uint64(0)}[uni(t, 3, "far")]
				}
				switch kk := uni(t, 100, "key_kind"); {
				case kk < 50 && op.I >= uint64(n) && op.I < uint64(n+64):
					op.Key = pending(int(op.I) - n)
				case kk < 75:
					op.Key = freshLetters[uni(t, len(freshLetters), "fresh")]
				case kk < 92 && len(c.Reg) > 0:
					op.Key = c.Reg[uni(t, len(c.Reg), "regkey")]
				default:
					op.Key = nValid + uni(t, nBad, "bad")
				}
				adds++
			case k < 68:
				op.K = "pub"
				switch ik := uni(t, 10, "pub_index"); {
				case ik < 4:
					op.I = uint64(uni(t, base+2, "any"))
				case ik < 7 && base > 0:
					op.I = uint64(base - 1)
				case ik < 9:
					op.I = uint64(base)
				default:
					op.I = 0
				}
			case k < 82:
				op.K = "vidx"
				switch kk := uni(t, 10, "vidx_key"); {
				case kk < 5:
					op.Key = pending(uni(t, adds+2, "pending"))
				case kk < 8 && len(c.Reg) > 0:
					op.Key = c.Reg[uni(t, len(c.Reg), "regkey")]
				default:
					op.Key = uni(t, nLetters, "anykey")
				}
			default:
				op.K = "redec"
			}
			c.Threads[g] = append(c.Threads[g], op)
		}
	}
	if uni(t, 3, "hot_start") == 0 {
		// every goroutine starts with an add at the next index of the shared handle: the same pair, or another key
		for g := range c.Threads {
			op := Op{K: "add", I: uint64(n), Key: pending(0)}
			if uni(t, 2, "hot_other") == 0 {
				op.Key = freshLetters[uni(t, len(freshLetters), "hot_key")]
			}
			c.Threads[g][0] = op
		}
		c.Note = "hot-start"
	}
	c.Sched = genSched(t, len(c.Threads))
	return c
}

func seqInts(n int) []int {
	out := make([]int, n)
	for i := range out {
		out[i] = i
	}
	return out
}

func u64p(v uint64) *uint64 { return &v }

func genAtt(t *rapid.T, size string) *Case {
	per := genShape(t, size)
	c := &Case{Comp: "att", Size: size, BaseEpoch: uint64(uni(t, 4, "base_epoch"))}
	for i := 0; i < 12; i++ {
		c.Sizes = append(c.Sizes, between(t, 1, 5, "size"))
	}
	hot := [3]int{uni(t, 3, "hot_e"), uni(t, 2, "hot_s"), uni(t, 2, "hot_c")}
	one := func() Op {
		e, s, ci := hot[0], hot[1], hot[2]
		switch k := uni(t, 20, "cell"); {
		case k >= 16:
			e, s, ci = uni(t, 3, "e"), uni(t, 2, "s"), uni(t, 2, "c")
		case k >= 11:
			e = (e + 1) % 3
		}
		switch k := uni(t, 100, "kind"); {
		case k < 60:
			n := c.size(e, s, ci)
			if uni(t, 12, "odd_len") == 0 {
				n = []int{0, n + 1, 9}[uni(t, 3, "len")]
			}
			b := make([]byte, n)
			ones := 0
			single := uni(t, 3, "single") == 0
			for i := range b {
				b[i] = '0'
				if !single && rapid.Bool().Draw(t, "bit") {
					b[i] = '1'
					ones++
				}
			}
			if n > 0 && (single || (ones == 0 && uni(t, 10, "keep_empty") > 0)) {
				b[uni(t, n, "who")] = '1'
			}
			return Op{K: "add", E: e, S: s, C: ci, V: []int{0, 0, 0, 1, 1, 2}[uni(t, 6, "v")], Bits: string(b)}
		case k < 82:
			op := Op{K: "search"}
			slot := (c.BaseEpoch+uint64(e))*uint64(poolSpec.SLOTS_PER_EPOCH) + uint64(s)
			switch uni(t, 4, "fslot") {
			case 0, 1:
				op.FSlot = u64p(slot)
			case 2:
				op.FSlot = u64p(slot + 3)
			}
			switch uni(t, 4, "fcomm") {
			case 0:
				op.FComm = u64p(uint64(ci))
			case 1:
				op.FComm = u64p(2)
			}
			return op
		}
		ep := int64(c.BaseEpoch) + int64(between(t, -1, 5, "prune"))
		if ep < 0 {
			ep = 0
		}
		return Op{K: "prune", Epoch: uint64(ep)}
	}
	for i, n := 0, uni(t, 7, "setup"); i < n; i++ {
		c.Setup = append(c.Setup, one())
	}
	var ops []Op
	for i := 0; i < total(per); i++ {
		ops = append(ops, one())
	}
	c.Threads = deal(t, ops, per)
	if uni(t, 3, "hot_start") == 0 {
		// every goroutine starts on the same attestation data: aggregates over the hot committee, or a prune
		n := c.size(hot[0], hot[1], hot[2])
		for g := range c.Threads {
			b := make([]byte, n)
			for i := range b {
				b[i] = "01"[uni(t, 2, "hot_bit")]
			}
			b[uni(t, n, "hot_who")] = '1'
			c.Threads[g][0] = Op{K: "add", E: hot[0], S: hot[1], C: hot[2], Bits: string(b)}
			if g > 0 && uni(t, 4, "hot_prune") == 0 {
				c.Threads[g][0] = Op{K: "prune", Epoch: c.BaseEpoch + uint64(hot[0]) + 2}
			}
		}
		c.Note = "hot-start"
	}
	c.Sched = genSched(t, len(c.Threads))
	return c
}

func genOps(t *rapid.T, comp, size string) *Case {
	per := genShape(t, size)
	c := &Case{Comp: comp, Size: size}
	subset := func(l string) []uint64 {
		var out []uint64
		for i := 0; i < 4; i++ {
			if rapid.Bool().Draw(t, l) {
				out = append(out, uint64(i))
			}
		}
		if len(out) == 0 {
			out = []uint64{uint64(uni(t, 4, l+"_one"))}
		}
		return out
	}
	one := func() Op {
		if uni(t, 10, "kind") < 3 {
			return Op{K: "all"}
		}
		op := Op{K: "add", Val: uint64(uni(t, 5, "val")), Epoch: uint64(uni(t, 3, "epoch")), Variant: uni(t, 2, "variant")}
		if comp == "attslash" {
			op.Val = 0
			op.Idx1, op.Idx2 = subset("idx1"), subset("idx2")
		}
		return op
	}
	for i, n := 0, uni(t, 4, "setup"); i < n; i++ {
		c.Setup = append(c.Setup, one())
	}
	var ops []Op
	for i := 0; i < total(per); i++ {
		ops = append(ops, one())
	}
	c.Threads = deal(t, ops, per)
	if uni(t, 3, "hot_start") == 0 {
		// every goroutine starts with an operation for the same validator / the same message
		first := one()
		for first.K != "add" {
			first = one()
		}
		for g := range c.Threads {
			op := first
			if comp != "attslash" && uni(t, 2, "hot_variant") == 0 {
				op.Variant = 1 - op.Variant
			}
			c.Threads[g][0] = op
		}
		c.Note = "hot-start"
	}
	c.Sched = genSched(t, len(c.Threads))
	return c
}

func genSync(t *rapid.T, size string) *Case {
	per := genShape(t, size)
	c := &Case{Comp: "sync", Size: size}
	cur := []uint64{5, 5, 1000, 1, 0, ^uint64(0) - 1}[uni(t, 6, "start")]
	if uni(t, 5, "no_reset") > 0 {
		c.Setup = append(c.Setup, Op{K: "reset", Slot: cur})
	}
	rel := func(l string) uint64 { return cur + uint64(int64(between(t, -2, 2, l))) }
	one := func() Op {
		switch k := uni(t, 100, "kind"); {
		case k < 25:
			s := rel("reset_rel")
			if uni(t, 6, "jump") == 0 {
				s = cur + uint64(between(t, 3, 40, "far"))
			}
			return Op{K: "reset", Slot: s}
		case k < 60:
			return Op{K: "msg", Slot: rel("msg_rel"), Val: uint64(uni(t, 6, "val")), Root: uni(t, 2, "root")}
		case k < 85:
			return Op{K: "contrib", Slot: rel("contrib_rel"), Root: uni(t, 2, "root"), Subnet: uint64(uni(t, 4, "subnet")), SBits: uint8(uni(t, 256, "bits"))}
		case k < 93:
			return Op{K: "packc", Slot: rel("pack_rel"), Root: uni(t, 2, "root"), Subnet: uint64(uni(t, 4, "subnet"))}
		}
		return Op{K: "packa", Slot: rel("pack_rel"), Root: uni(t, 2, "root")}
	}
	for i, n := 0, uni(t, 5, "setup"); i < n; i++ {
		if op := one(); op.K != "reset" {
			c.Setup = append(c.Setup, op)
		}
	}
	var ops []Op
	for i := 0; i < total(per); i++ {
		ops = append(ops, one())
	}
	c.Threads = deal(t, ops, per)
	if uni(t, 3, "hot_start") == 0 {
		// goroutine 0 moves the window while the others add into the slots around it
		for g := range c.Threads {
			if g == 0 {
				c.Threads[g][0] = Op{K: "reset", Slot: cur + 1}
			} else if uni(t, 2, "hot_kind") == 0 {
				c.Threads[g][0] = Op{K: "msg", Slot: cur + uint64(uni(t, 3, "hot_slot")), Val: uint64(uni(t, 3, "hot_val"))}
			} else {
				c.Threads[g][0] = Op{K: "contrib", Slot: cur + uint64(uni(t, 3, "hot_slot")), Subnet: 1, SBits: 5}
			}
		}
		c.Note = "hot-start"
	}
	c.Sched = genSched(t, len(c.Threads))
	return c
}

func gen(t *rapid.T, comp, size string) *Case {
	switch comp {
	case "fc":
		return genFc(t, size)
	case "pubkey":
		return genPk(t, size)
	case "att":
		return genAtt(t, size)
	case "sync":
		return genSync(t, size)
	}
	return genOps(t, comp, size)
}

// ---------------------------------------------------------------- one execution, the three oracles

type checker struct {
	r *report.Run
}

func firstPanic(c *Case, o *outcome) (opRef, string, bool) {
	for g := range o.recs {
		for j, rc := range o.recs[g] {
			if strings.HasPrefix(rc.Out, "panic:") {
				return opRef{g, j}, rc.Out, true
			}
		}
	}
	return opRef{}, "", false
}

func harnessTrouble(o *outcome) string {
	for g := range o.recs {
		for _, rc := range o.recs[g] {
			if strings.HasPrefix(rc.Out, "harness:") {
				return rc.Out
			}
		}
	}
	if strings.HasPrefix(o.final, "harness:") {
		return o.final
	}
	return ""
}

// runOnce executes the program once and applies the oracles. acct: record evidence.
func (x *checker) runOnce(c *Case, acct bool) *report.Failure {
	r := x.r
	if len(c.Threads) == 0 || len(c.Threads) > 16 {
		return report.Failf("harness/bad-case", "a program needs 1..16 goroutines")
	}
	var w world
	var err error
	if !report.WithTimeout(watchdog, func() { w, err = newWorld(c) }) {
		r.Excluded("sequential-blocked:setup") // the single-goroutine prefix did not return: not a C17 matter
		return nil
	}
	if err != nil {
		if strings.Contains(err.Error(), "panicked") {
			r.Excluded("sequential-panic:setup")
			return nil
		}
		return report.Failf("harness/setup", "cannot build the instance: %v", err)
	}
	o := runConcurrent(c, w)
	if len(o.stuck) > 0 {
		// a watchdog verdict is believed only if it repeats
		var w2 world
		var err2 error
		if !report.WithTimeout(watchdog, func() { w2, err2 = newWorld(c) }) {
			r.Excluded("sequential-blocked:setup")
			return nil
		}
		if err2 != nil {
			return report.Failf("harness/setup", "cannot rebuild the instance: %v", err2)
		}
		o2 := runConcurrent(c, w2)
		if len(o2.stuck) == 0 {
			r.Note(fmt.Sprintf("unconfirmed watchdog expiry (%s program, %d goroutines): second run finished in %v", c.Comp, len(c.Threads), o2.elapsed))
			r.Class("watchdog:unconfirmed")
			o = o2
		} else {
			if blocksSequentially(c) {
				r.Excluded("sequential-blocked")
				// a call that hangs in one goroutine will be met again and again: from here on 3 s (still 10^4 x
				// the duration of a call) instead of 20 s, every verdict is still confirmed by a second run
				watchdog = 3 * time.Second
				return nil
			}
			return report.Failf(c.Comp+"/blocked", "calls did not return within %v (twice); in flight: %s; history so far:%s", watchdog, strings.Join(o2.stuck, "; "), o2.dump(c))
		}
	}
	if h := harnessTrouble(o); h != "" {
		return report.Failf("harness/bad-call", "%s", h)
	}
	if strings.HasPrefix(o.final, "panic:") {
		// the sweep runs alone: a sequential matter unless the state it met is unreachable sequentially,
		// which the small programs decide
		if c.Size != "small" {
			r.Excluded("sequential-panic:final-sweep")
			return nil
		}
	}
	info := measure(c, o)
	ref, pmsg, panicked := firstPanic(c, o)
	if panicked && c.Size != "small" {
		m := metaOf(c, &c.Threads[ref.g][ref.j]).M
		if panicsSequentially(c, o, ref) {
			r.Excluded("sequential-panic:" + m)
			return nil
		}
		return report.Failf(m+"/panic-under-concurrency-only", "%s by goroutine %d panicked (%s) in the concurrent run and in none of three sequential orders of the same calls:%s", describe(c, &c.Threads[ref.g][ref.j]), ref.g, pmsg, o.dump(c))
	}
	lin := ""
	if c.Size == "small" && c.nops() <= 40 {
		v := checkLinearizable(c, o)
		switch {
		case v.spec.blocked:
			r.Excluded("sequential-blocked")
			lin = "excluded"
		case v.res == porcupine.Ok:
			lin = "ok"
			for m := range v.spec.panicked {
				if panicked {
					r.Excluded("sequential-panic:" + m)
				}
			}
		case v.res == porcupine.Unknown:
			lin = "budget-exhausted"
		default:
			if f := replayIsDeterministic(c); f != nil {
				return f
			}
			return report.Failf(c.Comp+"/non-linearizable", "no sequential order of these calls, run on a fresh instance in one goroutine, returns what the concurrent run returned (stamps are ticks of one atomic counter; %d sequential replays). %s. History:%s",
				v.replays, v.best, o.dump(c))
		}
		if acct {
			r.Class("lin:" + lin + ":" + c.Comp)
			r.ClassN("lin:sequential-replays", int64(v.replays))
		}
	}
	if acct {
		x.account(c, o, info, lin)
	}
	return nil
}

// blocksSequentially: do the same calls, thread after thread in one goroutine, also fail to return?
func blocksSequentially(c *Case) bool {
	return !report.WithTimeout(watchdog, func() {
		w, err := newWorld(c)
		if err != nil {
			return
		}
		for g := range c.Threads {
			for j := range c.Threads[g] {
				w.do(g, &c.Threads[g][j])
			}
		}
	})
}

// replayIsDeterministic guards the linearizability verdict against the harness: the same sequential
// order, replayed twice on fresh instances, must give the same results.
func replayIsDeterministic(c *Case) *report.Failure {
	var seq strings.Builder
	for g := range c.Threads {
		for j := range c.Threads[g] {
			seq.WriteString(enc(opRef{g, j}))
		}
	}
	runSeq := func() []string {
		s := newSeqSpec(c)
		var outs []string
		full := seq.String()
		for i := 0; i+1 < len(full); i += 2 {
			r := s.replay(full[:i], opRef{int(full[i]), int(full[i+1])})
			outs = append(outs, r.out, "fingerprint "+fmt.Sprintf("%x", r.fp))
		}
		outs = append(outs, s.replay(full, opRef{finalG, 0}).out)
		return outs
	}
	a, b := runSeq(), runSeq()
	for i := range a {
		if !sameResult(a[i], b[i]) {
			return report.Failf("harness/nondeterministic-sequential-replay", "call %d of the thread-after-thread order returned %q and then %q", i, a[i], b[i])
		}
	}
	return nil
}

var resultVocabulary = map[string]bool{"ok": true, "err": true, "true": true, "false": true, "same": true, "fork": true, "none": true, "panic": true,
	"point": true, "undecodable": true, "nothing-held": true, "{}": true, "nil": true, "other-point": true, "nil-point": true, "nil-handle": true, "nil-with-ok": true}

func bucket(n int) string {
	switch {
	case n == 0:
		return "0"
	case n <= 2:
		return "1-2"
	case n <= 8:
		return "3-8"
	case n <= 32:
		return "9-32"
	}
	return ">32"
}

func (x *checker) account(c *Case, o *outcome, info *overlapInfo, lin string) {
	r := x.r
	cls := c.Comp + "/" + c.Size
	r.Class(cls)
	r.Hit(cls)
	r.Hit("component:" + c.Comp)
	if c.Size == "small" {
		if lin == "ok" {
			r.Hit("small:linearizability-checked")
		}
	} else {
		r.Hit("large:race-detector+watchdog")
	}
	r.Class(fmt.Sprintf("goroutines=%d", len(c.Threads)))
	r.Class("release:" + c.Sched.Release)
	r.Class(c.Comp + ":overlapping-call-pairs=" + bucket(info.anyPairs))
	if info.ww {
		r.Class(c.Comp + ":overlapping-writers")
	}
	// results seen, per method (shows that the interesting outcomes happen under concurrency)
	seen := map[string]bool{}
	for g := range o.recs {
		for j, rc := range o.recs[g] {
			op := &c.Threads[g][j]
			m := metaOf(c, op).M
			out := rc.Out
			switch {
			case strings.HasPrefix(out, "panic:"):
				out = "panic"
			case c.Comp == "pubkey" && op.K == "add":
				if out == "same" && op.I >= uint64(len(c.Reg)) && op.I&(op.I-1) == 0 {
					seen["pubkey:append-at-capacity-boundary"] = true
				}
			case c.Comp == "pubkey" && (op.K == "pub" || op.K == "redec"):
				if i := strings.Index(out, ":"); i >= 0 {
					out = out[i+1:]
				}
			case c.Comp == "fc" && op.Fc != nil && op.Fc.K == fcsim.KUpd:
				if strings.HasPrefix(out, "ok") && !strings.HasSuffix(out, "pruned=[]") {
					seen["fc:prune-in-a-goroutine"] = true
				}
				out = strings.Fields(out)[0]
			case len(out) > 5:
				out = ""
			}
			if resultVocabulary[out] {
				seen["result:"+m+"="+out] = true
			}
		}
	}
	ks := make([]string, 0, len(seen))
	for k := range seen {
		ks = append(ks, k)
	}
	sort.Strings(ks)
	for _, k := range ks {
		r.Class(k)
	}
	if len(info.pairs) > 0 {
		r.NonTrivial(c.Comp + "|" + info.key())
		r.Hit("nontrivial:" + c.Comp)
		for p := range info.pairs {
			r.Class("overlap:" + c.Comp + ":" + p)
		}
		if c.Size == "small" || c.Comp == "fc" { // large programs are long: one of them is enough in the evidence file
			r.Sample(cls, func() any { return c })
		}
	} else {
		r.Class(c.Comp + ":trivial(no write overlapped a read of the same key)")
	}
}

// ---------------------------------------------------------------- test entry

// inflight also covers replay mode, where report.Inflight is a no-op (a regress program that kills the
// process again must still be attributed by the driver).
func inflight(r *report.Run, c *Case) {
	if r.Replay == "" && !r.InRegress {
		r.Inflight(c)
		return
	}
	b, _ := json.Marshal(map[string]any{"property": r.S.Property, "case": c, "sig": "process-death", "msg": "in flight when the process died (replay of a committed or given program)"})
	dir := filepath.Join(r.Root, "replays", "new")
	os.MkdirAll(dir, 0o755)
	os.WriteFile(filepath.Join(dir, fmt.Sprintf("%s-inflight-%d.json", r.S.Property, r.S.Shard)), b, 0o644)
}

func TestCheck(t *testing.T) {
	debug.SetMaxStack(64 << 20)
	r := report.Begin("C17")
	defer r.Finish()
	x := &checker{r: r}
	for i := nValid; i < nLetters; i++ {
		if _, err := (&common.CachedPubkey{Compressed: alphabet[i]}).Pubkey(); err == nil {
			r.Inconclusive(fmt.Sprintf("alphabet letter %s was meant to be undecodable but decompresses", letter(i)))
		}
	}
	r.Rule("concurrent programs on one shared instance of {fork choice through the wrapper, pubkey cache, attestation pool, exit pool, proposer-slashing pool, attester-slashing pool, sync-committee pool}; large = 2-8 goroutines x 5-40 calls (race detector + watchdog), small = 2-4 goroutines x 1-8 calls (+ linearizability against the component run single-threaded). non-trivial = >=2 goroutines whose calls overlap in time (recorded invoke/return stamps) with >=1 write and >=1 call that reads (returns something that depends on the state) touching the same key/node; distinct key = (component, set of overlapping writer~reader method pairs)")
	r.Assume(
		"schedules are sampled, not enumerated: the Go scheduler decides, the drawn bias (barrier/staggered release, Gosched pattern) only shifts the distribution; the race detector widens each executed schedule to its happens-before class, absence of a report is not absence of a race",
		"a schedule-dependent failure may not reproduce from its replay file on the first try: `check C17 --replay <file>` executes the program up to 200 times and stops at the first failure; committed regress programs are executed 40 times at the start of every run; a race report ends the process (GORACE=halt_on_error=1) and the driver promotes the program in flight (not shrunk)",
		"sequential specification = the component itself run in one goroutine (purely sequential defects belong to C09-C11, C16, C20); calls that panic or block in a sequential order too are counted under excluded_known, not judged",
		"small programs stamp calls with one atomic counter (sound real-time order; the counter orders non-overlapping calls, so the race detector only judges overlapping ones there); large programs add no synchronisation of their own",
		"the callbacks the fork choice calls while it holds its lock (balances function, prune sink) touch nothing shared",
		"SyncCommitteeMessages.Select is a method on a plain map value the pool never hands out; it is not a shared component and is left to C20",
		"watchdog 20 s for calls that take microseconds, believed only if a second run of the same program blocks too",
	)
	replay := func(raw json.RawMessage) *report.Failure {
		var c Case
		if err := json.Unmarshal(raw, &c); err != nil {
			return report.Failf("harness", "bad case: %v", err)
		}
		n := 40
		if r.Replay != "" {
			n = 200
		}
		for i := 0; i < n; i++ {
			inflight(r, &c)
			f := x.runOnce(&c, false)
			r.ClearInflight()
			if f != nil {
				f.Msg = fmt.Sprintf("(execution %d of up to %d) %s", i+1, n, f.Msg)
				return f
			}
		}
		return nil
	}
	if os.Getenv("C17_NOREGRESS") == "" || r.Replay != "" { // developer aid for sensitivity runs: the generator alone has to find it
		r.Regress(replay)
	}
	if r.Replay != "" {
		return
	}
	r.Note("schedule-dependent verdicts: the replay path loops a program up to 200 times (regress files: 40 times per run)")
	for _, comp := range components {
		r.Mandatory("component:"+comp, comp+"/small", comp+"/large", "nontrivial:"+comp)
	}
	r.Mandatory("small:linearizability-checked", "large:race-detector+watchdog")

	// the schedule varies from run to run: every program is executed several times
	repsOf := map[string]int{"small": 3, "large": 1}
	if r.Thorough() {
		repsOf = map[string]int{"small": 4, "large": 3}
	}
	secs := map[string]float64{}
	r.S.Extra["seconds_per_search_shard0"] = secs
	only := os.Getenv("C17_ONLY") // developer aid: e.g. pubkey/small
	sub := 0
	if only == "" || only == "fc" || only == "fc/tour" {
		r.Mandatory("fc/tour:check-then-act")
		r.Search(t, "fc/tour:check-then-act", 90, r.N(48, 400), func(rt *rapid.T) (any, *report.Failure) {
			c := tourFcCheckThenAct(rt)
			for i := 0; i < 6; i++ {
				r.Inflight(c)
				f := x.runOnce(c, i == 0)
				r.ClearInflight()
				if i == 0 {
					r.Eval(1)
					r.Hit("fc/tour:check-then-act")
				} else {
					r.Class("repeat-executions")
				}
				if f != nil {
					return c, f
				}
			}
			return c, nil
		})
		r.Mandatory("fc/tour:overlapping-updates")
		r.Search(t, "fc/tour:overlapping-updates", 91, r.N(48, 400), func(rt *rapid.T) (any, *report.Failure) {
			c := tourFcOverlappingUpdates(rt)
			for i := 0; i < 6; i++ {
				r.Inflight(c)
				f := x.runOnce(c, i == 0)
				r.ClearInflight()
				if i == 0 {
					r.Eval(1)
					r.Hit("fc/tour:overlapping-updates")
				} else {
					r.Class("repeat-executions")
				}
				if f != nil {
					return c, f
				}
			}
			return c, nil
		})
	}
	for _, comp := range components {
		for _, size := range []string{"small", "large"} {
			comp, size := comp, size
			sub++
			if only != "" && only != comp+"/"+size && only != comp {
				continue
			}
			n := r.N(160, 1600)
			t0 := time.Now()
			r.Search(t, comp+"/"+size, sub, n, func(rt *rapid.T) (any, *report.Failure) {
				c := gen(rt, comp, size)
				for i := 0; i < repsOf[size]; i++ {
					r.Inflight(c)
					f := x.runOnce(c, i == 0)
					r.ClearInflight()
					if i == 0 {
						r.Eval(1)
					} else {
						r.Class("repeat-executions")
					}
					if f != nil {
						return c, f
					}
				}
				return c, nil
			})
			secs[comp+"/"+size] = float64(int(time.Since(t0).Seconds()*10)) / 10
		}
	}
}
