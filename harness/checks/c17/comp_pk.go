package c17

import (
	"crypto/sha256"
	"fmt"
	"strings"

	blsu "github.com/protolambda/bls12-381-util"
	"github.com/protolambda/zrnt/eth2/beacon/common"
	"github.com/protolambda/zrnt/eth2/beacon/phase0"
	"github.com/protolambda/zrnt/eth2/configs"
)

// Alphabet: letters 0..nValid-1 are the compressed public keys of secret keys 1..nValid (they
// decompress); the last nBad letters are 48 bytes that are no curve point (decompression fails, so
// the lazily filled field stays empty and every use tries again).
const (
	nValid   = 22
	nBad     = 2
	nLetters = nValid + nBad
)

var alphabet = func() (out [nLetters]common.BLSPubkey) {
	for i := 0; i < nValid; i++ {
		var skb [32]byte
		skb[31] = byte(i + 1)
		var sk blsu.SecretKey
		if err := sk.Deserialize(&skb); err != nil {
			panic(err)
		}
		pk, err := blsu.SkToPk(&sk)
		if err != nil {
			panic(err)
		}
		out[i] = common.BLSPubkey(pk.Serialize())
	}
	for i := 0; i < nBad; i++ {
		a := sha256.Sum256([]byte{byte(i), 'b', 'a', 'd'})
		b := sha256.Sum256(a[:])
		copy(out[nValid+i][:32], a[:])
		copy(out[nValid+i][32:], b[:16])
		out[nValid+i][0] = 0x8f // compressed flag set, x taken from a hash: not on the curve (checked in init)
	}
	return
}()

var letterIndex = func() map[common.BLSPubkey]int {
	m := map[common.BLSPubkey]int{}
	for i := range alphabet {
		m[alphabet[i]] = i
	}
	return m
}()

func letter(k int) string {
	if k < 0 || k >= nLetters {
		return "?"
	}
	if k < 26 {
		return string(rune('A' + k))
	}
	return fmt.Sprintf("K%d", k)
}

func letterOf(p common.BLSPubkey) string {
	if i, ok := letterIndex[p]; ok {
		return letter(i)
	}
	return fmt.Sprintf("?%x", p[:4])
}

func registryOf(keys []int) (common.ValidatorRegistry, error) {
	reg, err := phase0.AsValidatorsRegistry(phase0.ValidatorsRegistryType(configs.Minimal).Default(nil), nil)
	if err != nil {
		return nil, err
	}
	for _, k := range keys {
		v := phase0.Validator{Pubkey: alphabet[k], EffectiveBalance: 32_000_000_000}
		if err := reg.Append(v.View()); err != nil {
			return nil, err
		}
	}
	return reg, nil
}

type pkThread struct {
	cur  *common.PubkeyCache  // the handle this goroutine holds (a chain state's cache)
	held *common.CachedPubkey // the last key handed out to this goroutine by Pubkey(i)
	_    [48]byte
}

type pkWorld struct {
	root    *common.PubkeyCache
	th      []pkThread
	maxIdx  uint64
	nthread int
}

func newPkWorld(c *Case) (world, error) {
	seen := map[int]bool{}
	for _, k := range c.Reg {
		if k < 0 || k >= nLetters || seen[k] {
			return nil, fmt.Errorf("registry keys must be distinct letters")
		}
		seen[k] = true
	}
	var pc *common.PubkeyCache
	if c.Empty {
		pc = common.EmptyPubkeyCache()
		for i, k := range c.Reg {
			got, err := pc.AddValidator(common.ValidatorIndex(i), alphabet[k])
			if err != nil || got != pc {
				return nil, fmt.Errorf("building the shared cache: AddValidator(%d) = %v, %v", i, got, err)
			}
		}
	} else {
		reg, err := registryOf(c.Reg)
		if err != nil {
			return nil, err
		}
		if pc, err = common.NewPubkeyCache(reg); err != nil {
			return nil, err
		}
	}
	w := &pkWorld{root: pc, th: make([]pkThread, len(c.Threads)+1), maxIdx: uint64(len(c.Reg))}
	for i := range w.th {
		w.th[i].cur = pc
	}
	for _, t := range c.Threads {
		for _, op := range t {
			if op.K == "add" && op.I < 1<<20 && op.I > w.maxIdx {
				w.maxIdx = op.I
			}
		}
	}
	return w, nil
}

func decompressName(cp *common.CachedPubkey) string {
	p, err := cp.Pubkey()
	if err != nil {
		return letterOf(cp.Compressed) + ":undecodable"
	}
	if p == nil {
		return letterOf(cp.Compressed) + ":nil-point"
	}
	// Serialize a private copy: blsu's Serialize normalises the point in place (kilic Affine(p) assigns p to
	// itself), which is a write inside the dependency, not inside the code under test.
	q := *p
	if common.BLSPubkey(q.Serialize()) != cp.Compressed {
		return letterOf(cp.Compressed) + ":other-point"
	}
	return letterOf(cp.Compressed) + ":point"
}

func (w *pkWorld) do(g int, op *Op) string {
	th := &w.th[g]
	return guardCall(func() string {
		target := w.root
		if op.H == 1 {
			target = th.cur
		}
		switch op.K {
		case "add":
			got, err := target.AddValidator(common.ValidatorIndex(op.I), alphabet[op.Key])
			switch {
			case err != nil:
				return "err"
			case got == nil:
				return "nil-handle"
			case got == target:
				return "same"
			}
			th.cur = got // a caller continues with the cache it was given back
			return "fork"
		case "pub":
			cp, ok := target.Pubkey(common.ValidatorIndex(op.I))
			if !ok {
				return "none"
			}
			if cp == nil {
				return "nil-with-ok"
			}
			th.held = cp
			return decompressName(cp)
		case "vidx":
			i, ok := target.ValidatorIndex(alphabet[op.Key])
			if !ok {
				return "none"
			}
			return fmt.Sprint(uint64(i))
		case "redec":
			// use, later, a key that was handed out earlier (the pointer may by now point into a backing
			// array the cache has grown out of)
			if th.held == nil {
				return "nothing-held"
			}
			return decompressName(th.held)
		}
		return "harness: unknown pubkey call " + op.K
	})
}

func (w *pkWorld) state() any { return w }

func (w *pkWorld) observe() string {
	var b strings.Builder
	sweep := func(name string, pc *common.PubkeyCache) {
		fmt.Fprintf(&b, "%s[", name)
		for i := uint64(0); i <= w.maxIdx+1; i++ {
			if cp, ok := pc.Pubkey(common.ValidatorIndex(i)); ok && cp != nil {
				b.WriteString(letterOf(cp.Compressed))
			} else if ok {
				b.WriteString("!")
			} else {
				b.WriteString("-")
			}
		}
		b.WriteString("|")
		for k := 0; k < nLetters; k++ {
			if i, ok := pc.ValidatorIndex(alphabet[k]); ok {
				fmt.Fprintf(&b, "%s%d ", letter(k), uint64(i))
			}
		}
		b.WriteString("] ")
	}
	sweep("root", w.root)
	for g := range w.th {
		if w.th[g].cur != w.root {
			sweep(fmt.Sprintf("g%d", g), w.th[g].cur)
		}
	}
	return b.String()
}

func pkMeta(op *Op) meta {
	switch op.K {
	case "add":
		return meta{M: "AddValidator", Write: true, Keys: []string{fmt.Sprint("i", op.I), "k" + letter(op.Key), "grow"}}
	case "pub":
		// the handed-out key is decompressed in place: that write is invisible to every other call
		return meta{M: "Pubkey+CachedPubkey.Pubkey", Keys: []string{fmt.Sprint("i", op.I), "grow"}}
	case "vidx":
		return meta{M: "ValidatorIndex", Keys: []string{"k" + letter(op.Key)}}
	case "redec":
		return meta{M: "CachedPubkey.Pubkey(held)", Keys: []string{"grow"}}
	}
	return meta{M: op.K, Write: true, Keys: []string{"*"}}
}
