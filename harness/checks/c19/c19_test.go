// C19 — numeric, time and Merkle helpers are exact over their whole domain.
// Oracle: math/big formulas, crypto/sha256, an independently computed Merkle root.
package c19

import (
	"crypto/sha256"
	"encoding/hex"
	"encoding/json"
	"fmt"
	"math/big"
	"testing"
	"time"

	"github.com/protolambda/zrnt/eth2/beacon/common"
	"github.com/protolambda/zrnt/eth2/configs"
	"github.com/protolambda/zrnt/eth2/gossipval"
	"github.com/protolambda/zrnt/eth2/util/hashing"
	zmath "github.com/protolambda/zrnt/eth2/util/math"
	"github.com/protolambda/zrnt/eth2/util/merkle"
	"github.com/protolambda/ztyp/tree"
	"github.com/protolambda/ztyp/view"
	"pgregory.net/rapid"

	"zrntverif/report"
)

type Case struct {
	Fn   string   `json:"fn"`
	U    []uint64 `json:"u,omitempty"`    // scalar arguments
	Hex  []string `json:"hex,omitempty"`  // byte-string arguments
	Note string   `json:"note,omitempty"` // boundary class of the drawn input
}

var two64 = new(big.Int).Lsh(big.NewInt(1), 64)

func bi(u uint64) *big.Int { return new(big.Int).SetUint64(u) }

// boundary-biased uint64 generator; returns value and its boundary class ("" = generic)
func genU64(t *rapid.T, label string) (uint64, string) {
	switch rapid.IntRange(0, 9).Draw(t, label+"_kind") {
	case 0:
		return rapid.SampledFrom([]uint64{0, 1, 2, 3}).Draw(t, label), "tiny"
	case 1:
		k := rapid.IntRange(1, 63).Draw(t, label+"_k")
		d := rapid.IntRange(-2, 2).Draw(t, label+"_d")
		return uint64(int64(uint64(1)<<uint(k)) + int64(d)), "pow2±2"
	case 2:
		r := rapid.Uint64Range(0, 1<<32-1).Draw(t, label+"_r")
		d := rapid.IntRange(-2, 2).Draw(t, label+"_d")
		return r*r + uint64(int64(d)), "square±2"
	case 3:
		d := rapid.Uint64Range(0, 4).Draw(t, label+"_d")
		return ^uint64(0) - d, "max-4..max"
	case 4:
		d := rapid.IntRange(-3, 3).Draw(t, label+"_d")
		return uint64(int64(1<<32) + int64(d)), "2^32±3"
	case 5:
		// (2^32-1)^2 neighbourhood and the largest perfect square
		d := rapid.IntRange(-2, 2).Draw(t, label+"_d")
		m := ^uint64(0) >> 32
		return m*m + uint64(int64(d)), "maxsquare±2"
	case 6:
		return rapid.Uint64Range(0, 1<<20).Draw(t, label), "small"
	default:
		return rapid.Uint64().Draw(t, label), ""
	}
}

func cls(notes ...string) string {
	s := ""
	for _, n := range notes {
		if n != "" {
			if s != "" {
				s += ","
			}
			s += n
		}
	}
	return s
}

// specWith derives the configuration the way every custom configuration is made — a by-value copy of a
// built-in one with fields overwritten — from a Spec that has been USED before the copy, and overwrites the
// fields of the copy a second time after using it too: a helper must read the fields as they are now.
func specWith(secondsPerSlot, slotsPerEpoch, lookahead, minChurn, churnQ, target, maxComm uint64) *common.Spec {
	useSpec(configs.Mainnet)
	s := *configs.Mainnet
	s.SECONDS_PER_SLOT = common.Timestamp(secondsPerSlot + 1)
	s.SLOTS_PER_EPOCH = common.Slot(slotsPerEpoch*2 + 1)
	s.MAX_SEED_LOOKAHEAD = common.Epoch(lookahead + 1)
	useSpec(&s)
	s.SECONDS_PER_SLOT = common.Timestamp(secondsPerSlot)
	s.SLOTS_PER_EPOCH = common.Slot(slotsPerEpoch)
	s.MAX_SEED_LOOKAHEAD = common.Epoch(lookahead)
	s.MIN_PER_EPOCH_CHURN_LIMIT = view.Uint64View(minChurn)
	s.CHURN_LIMIT_QUOTIENT = view.Uint64View(churnQ)
	s.TARGET_COMMITTEE_SIZE = view.Uint64View(target)
	s.MAX_COMMITTEES_PER_SLOT = view.Uint64View(maxComm)
	return &s
}

func useSpec(s *common.Spec) {
	s.SlotToEpoch(1000)
	s.EpochStartSlot(3)
	s.TimeToSlot(1_700_000_000, 1_600_000_000)
	s.TimeAtSlot(1000, 1_600_000_000)
	s.ComputeActivationExitEpoch(5)
	s.ForkVersion(1000)
}

func unhex(s string) []byte { b, _ := hex.DecodeString(s); return b }

func refMerkleRoot(leaf [32]byte, branch [][32]byte, depth, index uint64) [32]byte {
	v := leaf
	for i := uint64(0); i < depth; i++ {
		var buf [64]byte
		bit := uint64(0)
		if i < 64 {
			bit = (index >> i) & 1
		}
		if bit == 1 {
			copy(buf[:32], branch[i][:])
			copy(buf[32:], v[:])
		} else {
			copy(buf[:32], v[:])
			copy(buf[32:], branch[i][:])
		}
		v = sha256.Sum256(buf[:])
	}
	return v
}

// run executes one case against the real code. Pure: no randomness.
func run(c *Case) (f *report.Failure) {
	defer func() {
		if p := recover(); p != nil {
			f = report.Failf(c.Fn+"/panic", "%s(%v) panicked: %v", c.Fn, c.U, p)
		}
	}()
	u := c.U
	switch c.Fn {
	case "IntegerSquareroot":
		n := u[0]
		var got uint64
		if !report.WithTimeout(10*time.Second, func() {
			defer func() {
				if p := recover(); p != nil {
					f = report.Failf(c.Fn+"/panic", "IntegerSquareroot(%d) panicked: %v", n, p)
				}
			}()
			got = zmath.IntegerSquareroot(n)
		}) {
			return report.Failf(c.Fn+"/blocked", "IntegerSquareroot(%d) did not return", n)
		}
		if f != nil {
			return f
		}
		want := new(big.Int).Sqrt(bi(n)).Uint64()
		if got != want {
			return report.Failf(c.Fn+"/wrong", "IntegerSquareroot(%d) = %d, floor sqrt is %d", n, got, want)
		}
	case "NextPowerOfTwo":
		n := u[0]
		if n == 0 {
			return nil // the pinned suite fixes 0 -> 0; the spec helper is not defined here
		}
		want := big.NewInt(1)
		for want.Cmp(bi(n)) < 0 {
			want.Lsh(want, 1)
		}
		if want.Cmp(two64) >= 0 {
			return nil // not representable: nothing demanded
		}
		if got := zmath.NextPowerOfTwo(n); got != want.Uint64() {
			return report.Failf(c.Fn+"/wrong", "NextPowerOfTwo(%d) = %d want %d", n, got, want.Uint64())
		}
	case "IsPowerOfTwo":
		n := u[0]
		want := n != 0 && bi(n).BitLen()-1 == int(bi(n).TrailingZeroBits())
		if got := zmath.IsPowerOfTwo(n); got != want {
			return report.Failf(c.Fn+"/wrong", "IsPowerOfTwo(%d) = %v want %v", n, got, want)
		}
	case "MinMax":
		a, b := u[0], u[1]
		mn, mx := a, b
		if bi(a).Cmp(bi(b)) > 0 {
			mn, mx = b, a
		}
		if zmath.MinU64(a, b) != mn || zmath.MaxU64(a, b) != mx {
			return report.Failf(c.Fn+"/wrong", "Min/Max(%d,%d)", a, b)
		}
	case "TimeToSlot":
		tm, gen, sps := u[0], u[1], u[2]
		spec := specWith(sps, 32, 4, 4, 65536, 128, 64)
		want := uint64(0)
		if tm >= gen {
			want = new(big.Int).Div(new(big.Int).Sub(bi(tm), bi(gen)), bi(sps)).Uint64()
		}
		if got := spec.TimeToSlot(common.Timestamp(tm), common.Timestamp(gen)); uint64(got) != want {
			return report.Failf(c.Fn+"/wrong", "TimeToSlot(t=%d, genesis=%d, sps=%d) = %d want %d", tm, gen, sps, got, want)
		}
	case "TimeAtSlot":
		slot, gen, sps := u[0], u[1], u[2]
		spec := specWith(sps, 32, 4, 4, 65536, 128, 64)
		want := new(big.Int).Add(new(big.Int).Mul(bi(slot), bi(sps)), bi(gen))
		got, err := spec.TimeAtSlot(common.Slot(slot), common.Timestamp(gen))
		if want.Cmp(two64) < 0 {
			if err != nil {
				return report.Failf(c.Fn+"/error-on-representable", "TimeAtSlot(slot=%d, genesis=%d, sps=%d) errors (%v) although %s fits in 64 bits", slot, gen, sps, err, want)
			}
			if uint64(got) != want.Uint64() {
				return report.Failf(c.Fn+"/wrong", "TimeAtSlot(slot=%d, genesis=%d, sps=%d) = %d want %s", slot, gen, sps, got, want)
			}
		} else if err == nil {
			return report.Failf(c.Fn+"/wrapped", "TimeAtSlot(slot=%d, genesis=%d, sps=%d) = %d without error; true value %s overflows", slot, gen, sps, got, want)
		}
	case "EpochStartSlot":
		e, spe := u[0], u[1]
		spec := specWith(12, spe, 4, 4, 65536, 128, 64)
		want := new(big.Int).Mul(bi(e), bi(spe))
		got, err := spec.EpochStartSlot(common.Epoch(e))
		if want.Cmp(two64) < 0 {
			if err != nil || uint64(got) != want.Uint64() {
				return report.Failf(c.Fn+"/wrong", "EpochStartSlot(%d, spe=%d) = %d,%v want %s", e, spe, got, err, want)
			}
		} else if err == nil {
			return report.Failf(c.Fn+"/wrapped", "EpochStartSlot(%d, spe=%d) = %d without error; true value %s overflows", e, spe, got, want)
		}
	case "SlotToEpoch":
		s, spe := u[0], u[1]
		spec := specWith(12, spe, 4, 4, 65536, 128, 64)
		want := new(big.Int).Div(bi(s), bi(spe)).Uint64()
		if got := spec.SlotToEpoch(common.Slot(s)); uint64(got) != want {
			return report.Failf(c.Fn+"/wrong", "SlotToEpoch(%d, spe=%d) = %d want %d", s, spe, got, want)
		}
	case "ComputeActivationExitEpoch":
		e, la := u[0], u[1]
		spec := specWith(12, 32, la, 4, 65536, 128, 64)
		want := new(big.Int).Add(new(big.Int).Add(bi(e), big.NewInt(1)), bi(la))
		if want.Cmp(two64) >= 0 {
			return nil
		}
		if got := spec.ComputeActivationExitEpoch(common.Epoch(e)); uint64(got) != want.Uint64() {
			return report.Failf(c.Fn+"/wrong", "ComputeActivationExitEpoch(%d, lookahead=%d) = %d want %s", e, la, got, want)
		}
	case "GetChurnLimit":
		n, minc, q := u[0], u[1], u[2]
		spec := specWith(12, 32, 4, minc, q, 128, 64)
		want := new(big.Int).Div(bi(n), bi(q))
		if want.Cmp(bi(minc)) < 0 {
			want = bi(minc)
		}
		if got := spec.GetChurnLimit(n); got != want.Uint64() {
			return report.Failf(c.Fn+"/wrong", "GetChurnLimit(%d; min=%d, q=%d) = %d want %s", n, minc, q, got, want)
		}
	case "CommitteeCount":
		n, spe, target, maxc := u[0], u[1], u[2], u[3]
		spec := specWith(12, spe, 4, 4, 65536, target, maxc)
		want := new(big.Int).Div(new(big.Int).Div(bi(n), bi(spe)), bi(target))
		if want.Cmp(bi(maxc)) > 0 {
			want = bi(maxc)
		}
		if want.Sign() == 0 {
			want = big.NewInt(1)
		}
		if got := common.CommitteeCount(spec, n); got != want.Uint64() {
			return report.Failf(c.Fn+"/wrong", "CommitteeCount(%d; spe=%d,target=%d,max=%d) = %d want %s", n, spe, target, maxc, got, want)
		}
	case "PayloadTimestamp":
		return runPayloadTimestamp(c)
	case "CheckSlotSpan":
		slot, span, minSlot, maxSlot := u[0], u[1], u[2], u[3]
		calls := 0
		slotAfter := func(d time.Duration) common.Slot {
			calls++
			if d < 0 {
				return common.Slot(minSlot)
			}
			return common.Slot(maxSlot)
		}
		err := gossipval.CheckSlotSpan(slotAfter, common.Slot(slot), common.Slot(span))
		sum := new(big.Int).Add(bi(slot), bi(span))
		want := sum.Cmp(bi(minSlot)) >= 0 && bi(slot).Cmp(bi(maxSlot)) <= 0
		if sum.Cmp(two64) >= 0 {
			// the helper has an error result for overflow and may use it
			if err == nil && !want {
				return report.Failf(c.Fn+"/wrapped", "CheckSlotSpan(slot=%d span=%d min=%d max=%d) accepted", slot, span, minSlot, maxSlot)
			}
			return nil
		}
		if (err == nil) != want {
			return report.Failf(c.Fn+"/wrong", "CheckSlotSpan(slot=%d span=%d | min=%d max=%d) err=%v, inequality says accept=%v", slot, span, minSlot, maxSlot, err, want)
		}
	case "Hash":
		in := unhex(c.Hex[0])
		want := sha256.Sum256(in)
		if got := hashing.Hash(in); got != want {
			return report.Failf(c.Fn+"/wrong", "Hash(%x)", in)
		}
	case "GetHashFn":
		// one reused instance over all inputs, in order
		h := hashing.GetHashFn()
		for i, hx := range c.Hex {
			in := unhex(hx)
			want := sha256.Sum256(in)
			if got := h(in); got != want {
				return report.Failf(c.Fn+"/wrong", "reused GetHashFn instance wrong on input #%d (%d bytes)", i, len(in))
			}
		}
	case "XorBytes32":
		var a, b, want [32]byte
		copy(a[:], unhex(c.Hex[0]))
		copy(b[:], unhex(c.Hex[1]))
		for i := 0; i < 32; i++ {
			want[i] = a[i] ^ b[i]
		}
		if got := hashing.XorBytes32(a, b); got != want {
			return report.Failf(c.Fn+"/wrong", "XorBytes32(%x,%x)", a, b)
		}
	case "VerifyMerkleBranch":
		// Hex: leaf, root, branch...; U: depth, index
		depth, index := u[0], u[1]
		var leaf, root [32]byte
		copy(leaf[:], unhex(c.Hex[0]))
		copy(root[:], unhex(c.Hex[1]))
		br := make([][32]byte, 0, len(c.Hex)-2)
		zbr := make([]tree.Root, 0, len(c.Hex)-2)
		for _, hx := range c.Hex[2:] {
			var x [32]byte
			copy(x[:], unhex(hx))
			br = append(br, x)
			zbr = append(zbr, tree.Root(x))
		}
		want := refMerkleRoot(leaf, br, depth, index) == root
		got := merkle.VerifyMerkleBranch(tree.Root(leaf), zbr, depth, index, tree.Root(root))
		if got != want {
			return report.Failf(c.Fn+"/wrong", "VerifyMerkleBranch(depth=%d,index=%d,%s) = %v want %v", depth, index, c.Note, got, want)
		}
	default:
		return report.Failf("harness", "unknown fn %q", c.Fn)
	}
	return nil
}

func hx(b []byte) string { return hex.EncodeToString(b) }

func genCase(t *rapid.T, fn string) *Case {
	c := &Case{Fn: fn}
	small := func(label string, vals ...uint64) uint64 { return rapid.SampledFrom(vals).Draw(t, label) }
	switch fn {
	case "IntegerSquareroot", "NextPowerOfTwo", "IsPowerOfTwo":
		v, n := genU64(t, "n")
		c.U, c.Note = []uint64{v}, n
	case "MinMax":
		a, n1 := genU64(t, "a")
		b, n2 := genU64(t, "b")
		if rapid.Bool().Draw(t, "eq") {
			b = a
			n2 = "equal"
		}
		c.U, c.Note = []uint64{a, b}, cls(n1, n2)
	case "TimeToSlot":
		tm, n1 := genU64(t, "t")
		gen, n2 := genU64(t, "genesis")
		if rapid.Bool().Draw(t, "near") {
			d := rapid.Int64Range(-30, 30).Draw(t, "d")
			tm = gen + uint64(d)
			n1 = "t≈genesis"
		}
		c.U, c.Note = []uint64{tm, gen, small("sps", 1, 2, 6, 12)}, cls(n1, n2)
	case "TimeAtSlot":
		gen, n2 := genU64(t, "genesis")
		sps := small("sps", 1, 2, 6, 12)
		slot, n1 := genU64(t, "slot")
		if rapid.IntRange(0, 2).Draw(t, "edge") > 0 {
			// around the largest representable slot
			maxSlot := (^uint64(0) - gen) / sps
			d := rapid.Int64Range(-2, 2).Draw(t, "d")
			slot = maxSlot + uint64(d)
			n1 = "slot≈max-representable"
		}
		c.U, c.Note = []uint64{slot, gen, sps}, cls(n1, n2)
	case "EpochStartSlot":
		spe := small("spe", 1, 2, 3, 4, 6, 8, 12, 32, 33)
		e, n1 := genU64(t, "e")
		if rapid.IntRange(0, 2).Draw(t, "edge") > 0 {
			d := rapid.Int64Range(-2, 2).Draw(t, "d")
			e = ^uint64(0)/spe + uint64(d)
			n1 = "epoch≈max-representable"
		}
		c.U, c.Note = []uint64{e, spe}, n1
	case "SlotToEpoch":
		s, n1 := genU64(t, "s")
		c.U, c.Note = []uint64{s, small("spe", 1, 2, 4, 8, 32, 33)}, n1
	case "ComputeActivationExitEpoch":
		e, n1 := genU64(t, "e")
		c.U, c.Note = []uint64{e, small("la", 0, 1, 2, 4)}, n1
	case "GetChurnLimit":
		n, n1 := genU64(t, "n")
		minc := small("minc", 1, 2, 4, 8)
		q := small("q", 1, 4, 32, 65536)
		if rapid.Bool().Draw(t, "edge") {
			d := rapid.Int64Range(-2, 2).Draw(t, "d")
			n = minc*q + uint64(d)
			n1 = "n≈min*q"
		}
		c.U, c.Note = []uint64{n, minc, q}, n1
	case "CommitteeCount":
		spe := small("spe", 1, 4, 8, 32)
		target := small("target", 1, 2, 4, 128)
		maxc := small("maxc", 1, 2, 4, 64)
		n, n1 := genU64(t, "n")
		if rapid.Bool().Draw(t, "edge") {
			k := rapid.Uint64Range(0, maxc+1).Draw(t, "k")
			d := rapid.Int64Range(-2, 2).Draw(t, "d")
			n = spe*target*k + uint64(d)
			n1 = "n≈spe*target*k"
		}
		c.U, c.Note = []uint64{n, spe, target, maxc}, n1
	case "PayloadTimestamp":
		genPayloadTimestamp(t, c)
	case "CheckSlotSpan":
		slot, n1 := genU64(t, "slot")
		span := small("span", 0, 1, 2, 32, 64)
		var minS, maxS uint64
		switch rapid.IntRange(0, 4).Draw(t, "win") {
		case 4:
			// the clock is within the disparity of the start of slot number `span` (the first moment at which
			// min - span stops being negative): min in {span-2 .. span+1}, slots from 0 up to just past max
			if span == 0 {
				span = 32
			}
			minS = span - 2 + rapid.Uint64Range(0, 3).Draw(t, "near_span")
			maxS = minS + rapid.Uint64Range(0, 1).Draw(t, "w")
			slot = rapid.Uint64Range(0, maxS+2).Draw(t, "slot_small")
			n1 = "clock≈start-of-slot-number-span"
		case 0:
			d := rapid.Int64Range(-2, 2).Draw(t, "dmin")
			minS = slot + span + uint64(d)
			maxS = minS + rapid.Uint64Range(0, 1).Draw(t, "w")
			n1 = cls(n1, "min-edge")
		case 1:
			d := rapid.Int64Range(-2, 2).Draw(t, "dmax")
			maxS = slot + uint64(d)
			minS = maxS - rapid.Uint64Range(0, 1).Draw(t, "w")
			n1 = cls(n1, "max-edge")
		default:
			minS, _ = genU64(t, "min")
			maxS = minS + rapid.Uint64Range(0, 1).Draw(t, "w")
		}
		c.U, c.Note = []uint64{slot, span, minS, maxS}, n1
	case "Hash":
		n := rapid.SampledFrom([]int{0, 1, 31, 32, 33, 55, 56, 63, 64, 65, 96, 127, 128, 200}).Draw(t, "len")
		c.Hex = []string{hx(rapid.SliceOfN(rapid.Byte(), n, n).Draw(t, "in"))}
		c.Note = fmt.Sprintf("len=%d", n)
	case "GetHashFn":
		k := rapid.IntRange(2, 6).Draw(t, "k")
		for i := 0; i < k; i++ {
			n := rapid.SampledFrom([]int{0, 1, 32, 33, 55, 56, 64, 65, 128}).Draw(t, "len")
			c.Hex = append(c.Hex, hx(rapid.SliceOfN(rapid.Byte(), n, n).Draw(t, "in")))
		}
		c.Note = "reuse"
	case "XorBytes32":
		c.Hex = []string{hx(rapid.SliceOfN(rapid.Byte(), 32, 32).Draw(t, "a")), hx(rapid.SliceOfN(rapid.Byte(), 32, 32).Draw(t, "b"))}
	case "VerifyMerkleBranch":
		depth := uint64(rapid.IntRange(0, 33).Draw(t, "depth"))
		if rapid.IntRange(0, 5).Draw(t, "deep") == 0 {
			// trees as deep as the index is wide, and deeper (index bits beyond 63 are zero)
			depth = rapid.SampledFrom([]uint64{34, 40, 62, 63, 64, 64, 65, 70}).Draw(t, "deep_depth")
		}
		var index uint64
		switch rapid.IntRange(0, 3).Draw(t, "ik") {
		case 0:
			index = 0
		case 1:
			if depth > 0 && depth < 64 {
				index = (uint64(1) << depth) - 1
			}
		case 2: // index beyond 2^depth
			index = rapid.Uint64().Draw(t, "bigindex")
		default:
			if depth > 0 {
				index = rapid.Uint64Range(0, (uint64(1)<<depth)-1).Draw(t, "index")
			}
		}
		var leaf [32]byte
		copy(leaf[:], rapid.SliceOfN(rapid.Byte(), 32, 32).Draw(t, "leaf"))
		br := make([][32]byte, depth)
		for i := range br {
			copy(br[i][:], rapid.SliceOfN(rapid.Byte(), 32, 32).Draw(t, "sib"))
		}
		root := refMerkleRoot(leaf, br, depth, index)
		note := "honest"
		qIndex, qDepth := index, depth
		switch rapid.IntRange(0, 7).Draw(t, "corrupt") {
		case 0, 1, 2:
		case 3:
			if depth > 0 {
				i := rapid.IntRange(0, int(depth)-1).Draw(t, "ci")
				br[i][rapid.IntRange(0, 31).Draw(t, "cb")] ^= 1 << uint(rapid.IntRange(0, 7).Draw(t, "cbit"))
				note = "sibling-bitflip"
			}
		case 4:
			leaf[rapid.IntRange(0, 31).Draw(t, "cb")] ^= 1 << uint(rapid.IntRange(0, 7).Draw(t, "cbit"))
			note = "leaf-bitflip"
		case 5:
			root[rapid.IntRange(0, 31).Draw(t, "cb")] ^= 1 << uint(rapid.IntRange(0, 7).Draw(t, "cbit"))
			note = "root-bitflip"
		case 6:
			if depth > 0 {
				top := int(depth) - 1
				if top > 63 {
					top = 63
				}
				b := rapid.IntRange(0, top).Draw(t, "ibit")
				qIndex = index ^ (1 << uint(b))
				note = "index-bitflip"
			}
		case 7:
			if depth > 0 {
				qDepth = depth - 1
				note = "depth-1"
			}
		}
		c.U = []uint64{qDepth, qIndex}
		c.Hex = []string{hx(leaf[:]), hx(root[:])}
		for i := range br {
			c.Hex = append(c.Hex, hx(br[i][:]))
		}
		c.Note = fmt.Sprintf("%s,depth=%d", note, depth)
	}
	return c
}

var fns = []struct {
	name     string
	qN, tN   int
	nontrivK func(c *Case) (bool, string)
}{
	{"IntegerSquareroot", 320000, 800000, nil},
	{"NextPowerOfTwo", 160000, 400000, nil},
	{"IsPowerOfTwo", 160000, 400000, nil},
	{"MinMax", 40000, 100000, nil},
	{"TimeToSlot", 160000, 400000, nil},
	{"TimeAtSlot", 160000, 400000, nil},
	{"EpochStartSlot", 160000, 400000, nil},
	{"SlotToEpoch", 80000, 200000, nil},
	{"ComputeActivationExitEpoch", 80000, 200000, nil},
	{"GetChurnLimit", 80000, 200000, nil},
	{"CommitteeCount", 80000, 200000, nil},
	{"CheckSlotSpan", 160000, 400000, nil},
	{"PayloadTimestamp", 24000, 80000, nil},
	{"Hash", 24000, 60000, nil},
	{"GetHashFn", 16000, 40000, nil},
	{"XorBytes32", 16000, 40000, nil},
	{"VerifyMerkleBranch", 40000, 100000, nil},
}

func TestCheck(t *testing.T) {
	r := report.Begin("C19")
	defer r.Finish()
	r.Rule("cases drawn per helper from boundary-biased uint64 generators (0,1,2^k±2,squares±2,2^32±3,max-4..max, representability edges) and Merkle trees of depth 0..33 and 34..70 (as deep as / deeper than the index is wide); every configuration is a by-value copy of a built-in Spec that was used before the copy, with its fields overwritten, used, and overwritten again; PayloadTimestamp: process_execution_payload of bellatrix/capella/deneb on an empty pre-merge state accepts a timestamp iff it is the representable time of the state's slot (slots around the last representable one, products that overflow); non-trivial = input within distance 2 of a boundary value or a Merkle/hash case with depth>=1 / len>=1; distinct key = (function, boundary class, low bits of arguments)")
	r.Assume("math/big and crypto/sha256 are correct", "NextPowerOfTwo(0) is pinned to 0 by the repository's own test and not judged", "IntegerSquareRootPrysm (float based, unused by the transition) is not part of the property")
	replay := func(raw json.RawMessage) *report.Failure {
		var c Case
		if err := json.Unmarshal(raw, &c); err != nil {
			return report.Failf("harness", "bad case: %v", err)
		}
		return run(&c)
	}
	r.Regress(replay)
	if r.Replay != "" {
		return
	}
	for i, fn := range fns {
		fn := fn
		r.Mandatory("fn:" + fn.name)
		r.Search(t, fn.name, i, r.N(fn.qN, fn.tN), func(rt *rapid.T) (any, *report.Failure) {
			c := genCase(rt, fn.name)
			r.Eval(1)
			f := run(c)
			if c.Note != "" || len(c.Hex) > 0 {
				key := fmt.Sprintf("%s|%s|%v", c.Fn, c.Note, c.U)
				if len(c.Hex) > 0 {
					key += c.Hex[0]
				}
				r.NonTrivial(key)
				r.Hit("fn:" + fn.name)
				r.Class(c.Fn + ":" + noteClass(c.Note))
				r.Sample(c.Fn, func() any { return c })
			} else {
				r.Class(c.Fn + ":generic")
			}
			return c, f
		})
	}
}

func noteClass(n string) string {
	for i := 0; i < len(n); i++ {
		if n[i] == ',' && (n[:i] == "honest" || n[:i] == "sibling-bitflip" || n[:i] == "leaf-bitflip" || n[:i] == "root-bitflip" || n[:i] == "index-bitflip" || n[:i] == "depth-1") {
			return n[:i]
		}
	}
	if len(n) > 4 && n[:4] == "len=" {
		return "len"
	}
	return n
}
