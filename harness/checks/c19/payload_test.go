// C19 (part): the consumer of the slot -> time conversion. process_execution_payload (bellatrix, capella,
// deneb — three copies) accepts a payload's timestamp iff it equals compute_timestamp_at_slot(state,
// state.slot); when that time is not representable in 64 bits there is no such value and every timestamp,
// the wrapped-around one in particular, must be refused ("those that have an error result use it rather
// than returning a wrapped value"). An empty pre-merge state of the fork is used so that the timestamp
// is the only condition that can fail (parent hash is not checked before the merge, all randao mixes are
// zero, the engine approves everything).
//
// Sensitivity (tools/trymut.py, quick tier):
//
//	P1 capella ProcessExecutionPayload computes genesis+slot*SECONDS_PER_SLOT inline   PayloadTimestamp/wrapped-accepted:capella
//	P2 deneb timestamp comparison dropped                                              PayloadTimestamp/wrong-accepted:deneb
package c19

import (
	"context"
	"math/big"

	"github.com/protolambda/zrnt/eth2/beacon/bellatrix"
	"github.com/protolambda/zrnt/eth2/beacon/capella"
	"github.com/protolambda/zrnt/eth2/beacon/common"
	"github.com/protolambda/zrnt/eth2/beacon/deneb"
	"github.com/protolambda/zrnt/eth2/configs"
	"pgregory.net/rapid"

	"zrntverif/report"
)

type yesEngine struct{}

func (yesEngine) BellatrixNotifyNewPayload(ctx context.Context, p *bellatrix.ExecutionPayload) (bool, error) {
	return true, nil
}
func (yesEngine) BellatrixIsValidBlockHash(ctx context.Context, p *bellatrix.ExecutionPayload) (bool, error) {
	return true, nil
}
func (yesEngine) CapellaNotifyNewPayload(ctx context.Context, p *capella.ExecutionPayload) (bool, error) {
	return true, nil
}
func (yesEngine) CapellaIsValidBlockHash(ctx context.Context, p *capella.ExecutionPayload) (bool, error) {
	return true, nil
}
func (yesEngine) DenebNotifyNewPayload(ctx context.Context, p *deneb.ExecutionPayload, parentRoot common.Root) (bool, error) {
	return true, nil
}
func (yesEngine) DenebIsValidVersionedHashes(ctx context.Context, p *deneb.ExecutionPayload, hashes []common.Hash32) (bool, error) {
	return true, nil
}
func (yesEngine) DenebIsValidBlockHash(ctx context.Context, p *deneb.ExecutionPayload, parentRoot common.Root) (bool, error) {
	return true, nil
}

var payloadForks = []string{"bellatrix", "capella", "deneb"}

// u = [fork, slot, genesis, sps, offered-timestamp]
func runPayloadTimestamp(c *Case) *report.Failure {
	u := c.U
	fork, slot, gen, sps, offered := payloadForks[u[0]%3], u[1], u[2], u[3], u[4]
	s := *configs.Minimal
	s.SECONDS_PER_SLOT = common.Timestamp(sps)
	spec := &s
	ctx := context.Background()
	want := new(big.Int).Add(new(big.Int).Mul(bi(slot), bi(sps)), bi(gen))
	representable := want.Cmp(two64) < 0
	mustAccept := representable && want.Uint64() == offered
	var err error
	var setup error
	hash := common.Root{0xbe, byte(u[0])}
	switch fork {
	case "bellatrix":
		st := bellatrix.NewBeaconStateView(spec)
		if setup = st.SetGenesisTime(common.Timestamp(gen)); setup == nil {
			setup = st.SetSlot(common.Slot(slot))
		}
		err = bellatrix.ProcessExecutionPayload(ctx, spec, st, &bellatrix.ExecutionPayload{Timestamp: common.Timestamp(offered), BlockHash: hash}, yesEngine{})
	case "capella":
		st := capella.NewBeaconStateView(spec)
		if setup = st.SetGenesisTime(common.Timestamp(gen)); setup == nil {
			setup = st.SetSlot(common.Slot(slot))
		}
		err = capella.ProcessExecutionPayload(ctx, spec, st, &capella.ExecutionPayload{Timestamp: common.Timestamp(offered), BlockHash: hash}, yesEngine{})
	default:
		st := deneb.NewBeaconStateView(spec)
		if setup = st.SetGenesisTime(common.Timestamp(gen)); setup == nil {
			setup = st.SetSlot(common.Slot(slot))
		}
		body := &deneb.BeaconBlockBody{ExecutionPayload: deneb.ExecutionPayload{Timestamp: common.Timestamp(offered), BlockHash: hash}}
		err = deneb.ProcessExecutionPayload(ctx, spec, st, body, yesEngine{})
	}
	if setup != nil {
		return report.Failf("harness", "state setup: %v", setup)
	}
	switch {
	case mustAccept && err != nil:
		return report.Failf(c.Fn+"/refused:"+fork, "%s: payload timestamp %d at slot %d, genesis %d, %d s/slot is the slot's time, refused: %v", fork, offered, slot, gen, sps, err)
	case !mustAccept && err == nil && !representable:
		return report.Failf(c.Fn+"/wrapped-accepted:"+fork, "%s: the time of slot %d (genesis %d, %d s/slot) is %s and does not fit 64 bits, yet a payload with timestamp %d was accepted", fork, slot, gen, sps, want, offered)
	case !mustAccept && err == nil:
		return report.Failf(c.Fn+"/wrong-accepted:"+fork, "%s: the time of slot %d (genesis %d, %d s/slot) is %s, a payload with timestamp %d was accepted", fork, slot, gen, sps, want, offered)
	}
	return nil
}

func genPayloadTimestamp(t *rapid.T, c *Case) {
	fork := uint64(rapid.IntRange(0, 2).Draw(t, "fork"))
	sps := rapid.SampledFrom([]uint64{1, 2, 6, 12}).Draw(t, "sps")
	gen, n2 := genU64(t, "genesis")
	slot, n1 := genU64(t, "slot")
	switch rapid.IntRange(0, 3).Draw(t, "edge") {
	case 0, 1:
		// around the largest representable slot for this genesis time
		maxSlot := (^uint64(0) - gen) / sps
		slot = maxSlot + uint64(rapid.Int64Range(-2, 3).Draw(t, "d"))
		n1 = "slot≈max-representable"
	case 2:
		// the product alone overflows
		slot = ^uint64(0)/sps + 1 + rapid.Uint64Range(0, 1000).Draw(t, "over")
		n1 = "slot*sps overflows"
	}
	exact := gen + slot*sps // mod 2^64: the true value when representable, the wrapped one otherwise
	offered := exact
	note := "offered=slot-time-mod-2^64"
	if rapid.IntRange(0, 3).Draw(t, "other") == 0 {
		offered = exact + uint64(rapid.Int64Range(-2, 2).Draw(t, "off"))
		note = "offered≈slot-time"
	}
	c.U, c.Note = []uint64{fork, slot, gen, sps, offered}, cls(cls(n1, n2), note)
}
