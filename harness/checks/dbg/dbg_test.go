package dbg

import (
	"context"
	"encoding/json"
	"fmt"
	"os"
	"testing"

	"zrntverif/report"
	"zrntverif/sim"
)

// Developer aid: DBG_REPLAY=<file> go test ./checks/dbg -run TestChain -v  — steps a chain recipe and prints per-step verdicts.
func TestChain(t *testing.T) {
	raw, _, err := report.LoadReplay(os.Getenv("DBG_REPLAY"))
	if err != nil {
		t.Skip()
	}
	var cc sim.ChainCase
	json.Unmarshal(raw, &cc)
	cfg := cc.Config.Build()
	chain, _ := sim.NewChain(cfg, &cc.Genesis)
	l, _ := sim.NewLock(chain)
	ctx := context.Background()
	fmt.Printf("config %+v\ngenesis n=%d classes=%v\n", cc.Config, cc.Genesis.N, cc.Genesis.AmountClass)
	for i := range cc.Actions {
		a := &cc.Actions[i]
		slot := l.ResolveSlot(a)
		var res *sim.StepResult
		if a.Kind == "skip" {
			if os.Getenv("DBG_SINGLE") != "" {
				for s := l.St.Slot + 1; s <= slot; s++ {
					res = l.StepSkip(ctx, s)
					fmt.Printf("   single slot %d: lib=%v diff=%.600s\n", s, res.LibErr, res.Diff)
					if res.Diff != "" {
						break
					}
				}
			} else {
				res = l.StepSkip(ctx, slot)
			}
		} else {
			res = l.StepBlock(ctx, slot, a.Plan)
		}
		fmt.Printf("step %d %s slot %d: build=%v ref=%v slotsErr=%v slotsDiff=%.300s lib=%v diff=%.900s\n", i, a.Kind, slot, res.BuildErr, res.RefErr, res.SlotsErr, res.SlotsDiff, res.LibErr, res.Diff)
		if res.Diff != "" || res.SlotsDiff != "" || res.LibErr != nil {
			for vi := range l.St.Validators {
				v := &l.St.Validators[vi]
				fmt.Printf("   ref val %d: eff=%d bal=%d slashed=%v elig=%d act=%d exit=%d wd=%d\n", vi, v.EffectiveBalance, l.St.Balances[vi], v.Slashed, int64(v.ActivationEligibilityEpoch), int64(v.ActivationEpoch), int64(v.ExitEpoch), int64(v.WithdrawableEpoch))
			}
			break
		}
	}
}
