// C02 — slot, epoch and fork-upgrade processing equals the spec.
// Oracle: refspec.process_slots (bytes and root after every advance) + the reference-free
// metamorphic relation ProcessSlots(a->c) == ProcessSlots(a->b); ProcessSlots(b->c).
package c02

import (
	"context"
	"encoding/json"
	"fmt"
	"sort"
	"strings"
	"testing"

	"github.com/protolambda/zrnt/eth2/beacon/common"
	"pgregory.net/rapid"

	"zrntverif/refspec"
	"zrntverif/refssz"
	"zrntverif/report"
	"zrntverif/sim"
	"zrntverif/zb"
)

var forkNames = refspec.ForkNames

// errStop ends a case without a verdict (the rest of the chain is outside what can be judged).
var errStop = &report.Failure{Sig: "stop"}

// effects lists the substantive sub-transition effects visible between two reference states.
func effects(sp *refspec.Spec, pre, post *refspec.State) []string {
	m := map[string]bool{}
	if pre.CurrentJustifiedCheckpoint != post.CurrentJustifiedCheckpoint {
		m["justified-changed"] = true
	}
	if pre.FinalizedCheckpoint != post.FinalizedCheckpoint {
		m["finalized-changed"] = true
	}
	if sp.CurrentEpoch(post) > 1 && sp.IsInInactivityLeak(post) {
		m["leak-active"] = true
	}
	for i := range pre.InactivityScores {
		if i < len(post.InactivityScores) && pre.InactivityScores[i] != post.InactivityScores[i] {
			m["inactivity-score-changed"] = true
			break
		}
	}
	// a validator whose effective balance is 0 while its balance sits inside the upward hysteresis margin
	// (>= one increment, not yet increment + upward threshold): the update must leave it at 0
	{
		inc := sp.P.EFFECTIVE_BALANCE_INCREMENT
		up := inc / sp.P.HYSTERESIS_QUOTIENT * sp.P.HYSTERESIS_UPWARD_MULTIPLIER
		for i := range pre.Validators {
			if i < len(post.Validators) && pre.Validators[i].EffectiveBalance == 0 && post.Validators[i].EffectiveBalance == 0 &&
				post.Balances[i] >= inc && post.Balances[i] <= up {
				m["zero-effective-balance-inside-upward-margin"] = true
				break
			}
		}
	}
	// activation out of a long queue whose (eligibility epoch, index) order is not the index order
	{
		type q struct{ e, i uint64 }
		var queue []q
		for i := range pre.Validators {
			v := &pre.Validators[i]
			if v.ActivationEligibilityEpoch != refspec.FarFutureEpoch && v.ActivationEpoch == refspec.FarFutureEpoch {
				queue = append(queue, q{v.ActivationEligibilityEpoch, uint64(i)})
			}
		}
		inverted := false
		for k := 1; k < len(queue); k++ {
			if queue[k].e < queue[k-1].e {
				inverted = true
			}
		}
		if len(queue) > 12 && inverted {
			for _, x := range queue {
				if int(x.i) < len(post.Validators) && post.Validators[x.i].ActivationEpoch != refspec.FarFutureEpoch {
					m["activation-from-long-queue-not-in-index-order"] = true
					break
				}
			}
		}
	}
	exitEpochs := map[uint64]bool{}
	for i := range pre.Validators {
		a, b := &pre.Validators[i], &post.Validators[i]
		if a.ActivationEpoch == refspec.FarFutureEpoch && b.ActivationEpoch != refspec.FarFutureEpoch {
			m["activation"] = true
		}
		if a.ActivationEligibilityEpoch == refspec.FarFutureEpoch && b.ActivationEligibilityEpoch != refspec.FarFutureEpoch {
			m["activation-queued"] = true
		}
		if a.ExitEpoch == refspec.FarFutureEpoch && b.ExitEpoch != refspec.FarFutureEpoch {
			m["ejection"] = true
		}
		if a.EffectiveBalance != b.EffectiveBalance {
			m["effective-balance-changed"] = true
		}
		if b.ExitEpoch != refspec.FarFutureEpoch && b.ExitEpoch > sp.CurrentEpoch(post) {
			exitEpochs[b.ExitEpoch] = true
		}
		if a.Slashed && pre.Balances[i] > post.Balances[i] && sp.CurrentEpoch(pre)+sp.P.EPOCHS_PER_SLASHINGS_VECTOR/2 <= a.WithdrawableEpoch && a.WithdrawableEpoch <= sp.CurrentEpoch(post)+sp.P.EPOCHS_PER_SLASHINGS_VECTOR/2 {
			m["slashing-penalty-window"] = true
		}
	}
	if m["ejection"] && (m["activation-queued"] || m["activation"]) {
		// both halves of process_registry_updates write to the registry in one transition
		m["ejection-and-activation-write-in-one-transition"] = true
	}
	if len(exitEpochs) >= 2 {
		m["exit-queue-spans-epochs"] = true
		if m["ejection"] {
			m["ejection-behind-multi-epoch-queue"] = true
		}
	}
	if len(post.HistoricalRoots) > len(pre.HistoricalRoots) || len(post.HistoricalSummaries) > len(pre.HistoricalSummaries) {
		m["historical-append"] = true
	}
	if len(pre.Eth1DataVotes) > 0 && len(post.Eth1DataVotes) == 0 {
		m["eth1-reset"] = true
	}
	if pre.Fork >= refspec.Altair && post.Fork >= refspec.Altair && fmt.Sprint(pre.NextSyncCommittee.Pubkeys) != fmt.Sprint(post.NextSyncCommittee.Pubkeys) {
		m["sync-rotation"] = true
	}
	for f := pre.Fork + 1; f <= post.Fork; f++ {
		m["upgrade-to-"+forkNames[f]] = true
	}
	if sp.CurrentEpoch(post)-sp.CurrentEpoch(pre) >= 3 {
		m["advance>=3-epochs"] = true
	}
	// which of the four finalization rules held in this (single) epoch transition — several can hold at once
	if cur := sp.CurrentEpoch(pre); sp.CurrentEpoch(post) == cur+1 && cur > 1 && len(post.JustificationBits) == 4 {
		b, op, oc := post.JustificationBits, pre.PreviousJustifiedCheckpoint.Epoch, pre.CurrentJustifiedCheckpoint.Epoch
		var held []string
		if b[1] && b[2] && b[3] && op+3 == cur {
			held = append(held, "1")
		}
		if b[1] && b[2] && op+2 == cur {
			held = append(held, "2")
		}
		if b[0] && b[1] && b[2] && oc+2 == cur {
			held = append(held, "3")
		}
		if b[0] && b[1] && oc+1 == cur {
			held = append(held, "4")
		}
		if len(held) > 0 {
			m["finalization-rules:"+strings.Join(held, "+")] = true
		}
	}
	out := make([]string, 0, len(m))
	for k := range m {
		out = append(out, k)
	}
	sort.Strings(out)
	return out
}

func trunc(s string) string {
	if len(s) > 700 {
		return s[:700] + "…"
	}
	return s
}

func diffClass(d string) string {
	i := strings.Index(d, ": .")
	if i < 0 {
		return "unknown"
	}
	rest := d[i+3:]
	end := strings.IndexAny(rest, ".[: ")
	if end < 0 {
		end = len(rest)
	}
	return rest[:end]
}

// judge evaluates one slot advance pre->post (reference states) against the library result.
func judge(r *report.Run, l *sim.Lock, pre *refspec.State, libErr error, panicked bool, diff string, what string) *report.Failure {
	post := l.St
	eff := effects(l.Sp, pre, post)
	desc := fmt.Sprintf("%s: slots %d->%d (epochs %d->%d) fork %s effects %v", what, pre.Slot, post.Slot, l.Sp.CurrentEpoch(pre), l.Sp.CurrentEpoch(post), forkNames[post.Fork], eff)
	if panicked {
		return report.Failf("slots/panic", "%s: %v", desc, libErr)
	}
	if libErr != nil && strings.Contains(libErr.Error(), "no active validators") && len(l.Sp.ActiveIndices(post, l.Sp.CurrentEpoch(post))) == 0 {
		// known finding F-C02-05: the library cannot advance a state whose active set is empty
		const sig = "slots/error:no-active-validators"
		if r.IsKnown(sig) {
			r.Excluded("F-C02-05:no-active-validators")
			return errStop
		}
		return report.Failf(sig, "%s: library ProcessSlots fails on a state with no active validators, the spec's process_slots does not: %v", desc, libErr)
	}
	if libErr != nil {
		return report.Failf("slots/error", "%s: library ProcessSlots failed where the reference succeeds: %v", desc, libErr)
	}
	if diff != "" {
		return report.Failf("slots/diverge:"+diffClass(diff), "%s: %s", desc, trunc(diff))
	}
	r.Eval(1)
	crossed := l.Sp.CurrentEpoch(post) > l.Sp.CurrentEpoch(pre)
	if crossed && len(eff) > 0 {
		r.NonTrivial(forkNames[post.Fork] + "|" + strings.Join(eff, ","))
		r.Class("nontrivial:" + forkNames[post.Fork])
		for _, e := range eff {
			r.Hit("effect:" + e)
		}
		if len(post.Validators) > 1024 {
			r.Hit("epoch-boundary-with-registry>1024")
			r.Class("epoch-boundary-with-registry>1024:" + forkNames[post.Fork])
		}
		r.Sample(strings.Join(eff, ","), func() any {
			return map[string]any{"from_slot": pre.Slot, "to_slot": post.Slot, "fork": forkNames[post.Fork], "effects": eff, "validators": len(post.Validators)}
		})
	} else if crossed {
		r.Class("epoch-crossed-no-effect")
	} else {
		r.Class("within-epoch")
	}
	return nil
}

// metamorphic: on copies of the library state, a->c in one call must equal a->b, b->c.
func metamorphic(l *sim.Lock, target uint64, mid uint64) *report.Failure {
	ctx := context.Background()
	a1, err := l.Lib.BeaconState.CopyState()
	if err != nil {
		return report.Failf("harness", "copy: %v", err)
	}
	a2, err := l.Lib.BeaconState.CopyState()
	if err != nil {
		return report.Failf("harness", "copy: %v", err)
	}
	s1, s2 := zb.Upgradeable(a1), zb.Upgradeable(a2)
	e1c, e2c := l.Epc.Clone(), l.Epc.Clone()
	err1, _ := sim.Guard(func() error { return common.ProcessSlots(ctx, l.LibSpec, e1c, s1, common.Slot(target)) })
	err2, _ := sim.Guard(func() error {
		if err := common.ProcessSlots(ctx, l.LibSpec, e2c, s2, common.Slot(mid)); err != nil {
			return err
		}
		return common.ProcessSlots(ctx, l.LibSpec, e2c, s2, common.Slot(target))
	})
	if (err1 == nil) != (err2 == nil) {
		return report.Failf("slots/metamorphic-verdict", "a->c err=%v but a->b->c err=%v (b=%d c=%d)", err1, err2, mid, target)
	}
	if err1 == nil && zb.StateRoot(s1) != zb.StateRoot(s2) {
		return report.Failf("slots/metamorphic-root", "ProcessSlots(a->%d) root != ProcessSlots(a->%d->%d) root", target, mid, target)
	}
	return nil
}

func run(r *report.Run, cc *sim.ChainCase) *report.Failure {
	cfg := cc.Config.Build()
	chain, err := sim.NewChain(cfg, &cc.Genesis)
	if err != nil {
		r.Class("genesis-rejected")
		return nil
	}
	l, err := sim.NewLock(chain)
	if err != nil {
		return report.Failf("genesis/load", "%v", err)
	}
	ctx := context.Background()
	for i := range cc.Actions {
		a := &cc.Actions[i]
		slot := l.ResolveSlot(a)
		pre := l.St.Copy()
		switch a.Kind {
		case "skip":
			if slot-pre.Slot >= 2 && i%3 == 0 {
				if f := metamorphic(l, slot, pre.Slot+1+(slot-pre.Slot-1)/2); f != nil {
					return f
				}
				r.Class("metamorphic-split-checked")
			}
			// reference self-checks (they validate the oracle, not the library): the split relation and
			// survival of a refssz round trip; a failure here is a harness defect -> inconclusive, never a VIOLATION
			if slot-pre.Slot >= 2 && i%4 == 1 {
				mid := pre.Slot + 1 + (slot-pre.Slot-1)/2
				a, b := pre.Copy(), pre.Copy()
				ea := l.Sp.ProcessSlots(a, slot)
				eb := l.Sp.ProcessSlots(b, mid)
				if eb == nil {
					eb = l.Sp.ProcessSlots(b, slot)
				}
				if (ea == nil) != (eb == nil) || (ea == nil && l.Sp.StateRoot(a) != l.Sp.StateRoot(b)) {
					r.Inconclusive(fmt.Sprintf("reference self-check failed: process_slots(%d->%d) != process_slots(%d->%d->%d)", pre.Slot, slot, pre.Slot, mid, slot))
					return nil
				}
				ty := l.Sp.T(refspec.StateTypeName(a.Fork))
				if ea == nil {
					bs := l.Sp.StateBytes(a)
					v, err := refssz.Deserialize(ty, bs)
					if err != nil || refssz.HashTreeRoot(ty, v) != l.Sp.StateRoot(a) {
						r.Inconclusive(fmt.Sprintf("reference self-check failed: state does not survive a refssz round trip: %v", err))
						return nil
					}
				}
				r.Class("reference-self-checks")
			}
			res := l.StepSkip(ctx, slot)
			if res.RefErr != nil {
				r.Class("ref-slots-error")
				r.Note("reference process_slots failed: " + trunc(res.RefErr.Error()))
				return nil
			}
			if f := judge(r, l, pre, res.LibErr, res.LibPanic, res.Diff, "skip"); f != nil {
				if f == errStop {
					return nil
				}
				return f
			}
		case "block":
			res := l.StepBlock(ctx, slot, a.Plan)
			if res.BecameSkip {
				if f := judge(r, l, pre, res.LibErr, res.LibPanic, res.Diff, "skip(proposer slashed)"); f != nil {
					if f == errStop {
						return nil
					}
					return f
				}
				continue
			}
			if res.BuildErr != nil || res.RefErr != nil {
				r.Class("generator_rejects")
				r.Note(fmt.Sprintf("generator slip: %v %v", res.BuildErr, res.RefErr))
				return nil
			}
			// the slot advance that precedes the block is C02's subject
			post := l.St
			l.St = res.Info.Pre
			f := judge(r, l, pre, res.SlotsErr, res.LibPanic && res.SlotsErr != nil, res.SlotsDiff, "slots-before-block")
			l.St = post
			if f == errStop {
				return nil
			}
			if f != nil {
				return f
			}
			if res.LibErr != nil || res.Diff != "" {
				r.Class("discarded_other_property(C01)")
				r.Note(fmt.Sprintf("C01-domain divergence seen while running C02: %v %s", res.LibErr, trunc(res.Diff)))
				return nil
			}
			r.Class("blocks-applied")
		}
	}
	return nil
}

func TestCheck(t *testing.T) {
	r := report.Begin("C02")
	defer r.Finish()
	r.Rule("generated chain recipes with history-heavy bias (skips up to 3 epochs, participation profiles full/above-2/3/below-2/3/poor/none, slashing and exit bursts, custom presets that make leaks, ejections, sync rotations and upgrades reachable in few slots); every ProcessSlots advance (skips and the advance before each block) is compared byte-for-byte and by root with refspec.process_slots; non-trivial = the advance crosses >=1 epoch boundary and the reference pre/post states show >=1 sub-transition effect; distinct key = (fork at the end, effect set)")
	r.Assume("refspec/refssz (harness transcription of consensus-specs v1.5.0-beta.2) is the spec", "fork epochs >= 1, non-decreasing; Electra never activated; validator sets <= 130; chains <= ~12 epochs")
	replay := func(raw json.RawMessage) *report.Failure {
		var cc sim.ChainCase
		if err := json.Unmarshal(raw, &cc); err != nil {
			return report.Failf("harness", "bad case: %v", err)
		}
		return run(r, &cc)
	}
	r.Regress(replay)
	if r.Replay != "" {
		return
	}
	r.Mandatory("effect:ejection-and-activation-write-in-one-transition", "effect:upgrade-to-altair", "effect:upgrade-to-bellatrix", "effect:upgrade-to-capella", "effect:upgrade-to-deneb",
		"effect:justified-changed", "effect:finalized-changed", "effect:leak-active", "effect:ejection", "effect:activation", "epoch-boundary-with-registry>1024", "effect:activation-from-long-queue-not-in-index-order", "effect:zero-effective-balance-inside-upward-margin",
		"effect:effective-balance-changed", "effect:historical-append", "effect:eth1-reset", "effect:sync-rotation", "effect:inactivity-score-changed")
	// ---- class tour: one directed template per mandatory deep class, free details still drawn
	for ti, tour := range tours {
		tour := tour
		r.Search(t, "tour-"+tour.name, 100+ti, tourN(r), func(rt *rapid.T) (any, *report.Failure) {
			cc := tour.gen(rt)
			return cc, run(r, cc)
		})
	}
	opts := sim.GenOpts{CustomPct: 80, AllowMainnet: true, MaxSlots: 56, BlockPct: 55, MaxSkip: 3, OpsBias: 45}
	r.Search(t, "chains", 0, r.N(320, 5000), func(rt *rapid.T) (any, *report.Failure) {
		cc := sim.GenChainCase(rt, opts)
		return cc, run(r, cc)
	})
}

func tourN(r *report.Run) int {
	if r.Thorough() {
		return 12
	}
	return 2
}

func tourConfig(rt *rapid.T, forks [4]uint64, extra map[string]uint64) sim.ConfigCase {
	o := map[string]uint64{"SLOTS_PER_EPOCH": 4, "TARGET_COMMITTEE_SIZE": 2, "MAX_COMMITTEES_PER_SLOT": 2, "SHUFFLE_ROUND_COUNT": 3,
		"SLOTS_PER_HISTORICAL_ROOT": 8, "EPOCHS_PER_HISTORICAL_VECTOR": 8, "EPOCHS_PER_SLASHINGS_VECTOR": 4, "EPOCHS_PER_ETH1_VOTING_PERIOD": 1,
		"MAX_SEED_LOOKAHEAD": 1, "MIN_EPOCHS_TO_INACTIVITY_PENALTY": 1, "SHARD_COMMITTEE_PERIOD": 0, "MIN_VALIDATOR_WITHDRAWABILITY_DELAY": 1,
		"MIN_PER_EPOCH_CHURN_LIMIT": 2, "CHURN_LIMIT_QUOTIENT": 4, "MAX_PER_EPOCH_ACTIVATION_CHURN_LIMIT": 8, "SYNC_COMMITTEE_SIZE": 4,
		"EPOCHS_PER_SYNC_COMMITTEE_PERIOD": 2, "MAX_DEPOSITS": 16, "MAX_ATTESTATIONS": 128, "MAX_VOLUNTARY_EXITS": 16}
	for k, v := range extra {
		o[k] = v
	}
	return sim.ConfigCase{Family: "custom", ForkEpochs: forks, Override: o}
}

func fullBlock(rt *rapid.T, part int) *sim.BlockPlan {
	return &sim.BlockPlan{Seed: rapid.Uint64().Draw(rt, "seed"), AttMode: 1, Participation: part, SyncPm: 1000, Eth1Vote: 1}
}

func genesisN(rt *rapid.T, n int, eth1 bool) sim.GenesisCase {
	g := sim.GenesisCase{N: n, GenesisTime: 1000, Eth1Seed: rapid.Uint64().Draw(rt, "eth1_seed")}
	for i := 0; i < n; i++ {
		g.AmountClass = append(g.AmountClass, 0)
		g.Eth1Cred = append(g.Eth1Cred, eth1)
	}
	return g
}

var farE = refspec.FarFutureEpoch

var tours = []struct {
	name string
	gen  func(rt *rapid.T) *sim.ChainCase
}{
	{"mass-ejection-queue", func(rt *rapid.T) *sim.ChainCase {
		// every validator is at the ejection balance: all are ejected at the first boundary and the exit
		// queue spills over many epochs; later boundaries keep adding to a multi-epoch queue
		fork := rapid.SampledFrom([][4]uint64{{farE, farE, farE, farE}, {1, farE, farE, farE}, {1, 1, 2, 2}}).Draw(rt, "forks")
		cc := &sim.ChainCase{Profile: "full"}
		cc.Config = tourConfig(rt, fork, map[string]uint64{"EJECTION_BALANCE": 32_000_000_000,
			"MIN_PER_EPOCH_CHURN_LIMIT": rapid.SampledFrom([]uint64{1, 2, 3}).Draw(rt, "churn"), "CHURN_LIMIT_QUOTIENT": 65536})
		cc.Genesis = genesisN(rt, rapid.IntRange(8, 14).Draw(rt, "n"), true)
		cc.Actions = append(cc.Actions, sim.Action{Kind: "block", Slots: 1, Plan: fullBlock(rt, 1000)})
		for i := 0; i < 5; i++ {
			cc.Actions = append(cc.Actions, sim.Action{Kind: "skip", Slots: rapid.IntRange(1, 6).Draw(rt, "skip")})
		}
		return cc
	}},
	{"exit-burst-then-ejection", func(rt *rapid.T) *sim.ChainCase {
		// voluntary exits fill the queue over several epochs; a few low-balance validators are then ejected behind it
		cc := &sim.ChainCase{Profile: "full"}
		cc.Config = tourConfig(rt, [4]uint64{farE, farE, farE, farE}, map[string]uint64{"EJECTION_BALANCE": 31_000_000_000,
			"MIN_PER_EPOCH_CHURN_LIMIT": rapid.SampledFrom([]uint64{1, 2}).Draw(rt, "churn"), "CHURN_LIMIT_QUOTIENT": 65536})
		n := rapid.IntRange(20, 28).Draw(rt, "n")
		cc.Genesis = genesisN(rt, n, true)
		p := fullBlock(rt, 1000)
		p.NExits = 5
		cc.Actions = append(cc.Actions, sim.Action{Kind: "block", Slots: 1, Plan: p})
		// slash a few: their effective balance drops to 31 ETH at the next boundary -> <= EJECTION_BALANCE
		p2 := fullBlock(rt, 1000)
		p2.NAttSlash, p2.NExits = 1, 3
		cc.Actions = append(cc.Actions, sim.Action{Kind: "block", Slots: 1, Plan: p2})
		for i := 0; i < 4; i++ {
			cc.Actions = append(cc.Actions, sim.Action{Kind: "skip", Slots: rapid.IntRange(2, 5).Draw(rt, "skip")})
		}
		return cc
	}},
	{"activation-burst-near-two-thirds", func(rt *rapid.T) *sim.ChainCase {
		// many validators deposited at once, finality, then they activate in one epoch while
		// participation sits just above 2/3: current-epoch justification depends on the newcomers' stake
		fork := rapid.SampledFrom([][4]uint64{{1, farE, farE, farE}, {1, 2, 2, 3}, {farE, farE, farE, farE}}).Draw(rt, "forks")
		cc := &sim.ChainCase{Profile: "full"}
		cc.Config = tourConfig(rt, fork, map[string]uint64{"MIN_PER_EPOCH_CHURN_LIMIT": 8})
		cc.Genesis = genesisN(rt, 16, true)
		first := fullBlock(rt, 1000)
		for i := 0; i < rapid.IntRange(6, 8).Draw(rt, "new"); i++ {
			first.Queue = append(first.Queue, sim.DepPlan{Kind: 0, Amount: 0, Eth1: true})
		}
		cc.Actions = append(cc.Actions, sim.Action{Kind: "block", Slots: 1, Plan: first})
		for s := 2; s <= 20; s++ {
			cc.Actions = append(cc.Actions, sim.Action{Kind: "block", Slots: 1, Plan: fullBlock(rt, 1000)})
		}
		part := rapid.IntRange(690, 800).Draw(rt, "part")
		for s := 21; s <= 30; s++ {
			cc.Actions = append(cc.Actions, sim.Action{Kind: "block", Slots: 1, Plan: fullBlock(rt, part)})
		}
		return cc
	}},
	{"leak-to-zero-balance", func(rt *rapid.T) *sim.ChainCase {
		// tiny balances (deposits of 17 ETH top... kept inactive) are not penalised; instead a long non-finality
		// leak with high base rewards drives active balances down so that penalties clip at zero
		fork := rapid.SampledFrom([][4]uint64{{1, farE, farE, farE}, {1, 1, farE, farE}, {farE, farE, farE, farE}}).Draw(rt, "forks")
		cc := &sim.ChainCase{Profile: "none"}
		cc.Config = tourConfig(rt, fork, map[string]uint64{"BASE_REWARD_FACTOR": 1 << 22, "INACTIVITY_PENALTY_QUOTIENT": 1 << 10,
			"INACTIVITY_PENALTY_QUOTIENT_ALTAIR": 1 << 8, "INACTIVITY_PENALTY_QUOTIENT_BELLATRIX": 1 << 8, "EJECTION_BALANCE": 1_000_000_000})
		cc.Genesis = genesisN(rt, rapid.IntRange(8, 12).Draw(rt, "n"), true)
		cc.Actions = append(cc.Actions, sim.Action{Kind: "block", Slots: 1, Plan: fullBlock(rt, rapid.SampledFrom([]int{0, 300, 1000}).Draw(rt, "p"))})
		for i := 0; i < 6; i++ {
			cc.Actions = append(cc.Actions, sim.Action{Kind: "skip", Slots: rapid.IntRange(3, 9).Draw(rt, "skip")})
			cc.Actions = append(cc.Actions, sim.Action{Kind: "block", Slots: 1, Plan: fullBlock(rt, rapid.SampledFrom([]int{0, 300, 500}).Draw(rt, "p"))})
		}
		return cc
	}},
	{"long-activation-queue-mixed-eligibility", func(rt *rapid.T) *sim.ChainCase {
		// more than a dozen validators wait in the activation queue at once, and the queue's order is NOT the index
		// order: three early depositors start with half a deposit and only become eligible after a later top-up,
		// behind validators of higher index; the churn limit lets two through per epoch
		fork := rapid.SampledFrom([][4]uint64{{farE, farE, farE, farE}, {1, farE, farE, farE}, {1, 2, 3, 4}, {1, 1, 1, 1}}).Draw(rt, "forks")
		cc := &sim.ChainCase{Profile: "full"}
		cc.Config = tourConfig(rt, fork, map[string]uint64{"MIN_PER_EPOCH_CHURN_LIMIT": rapid.SampledFrom([]uint64{2, 3}).Draw(rt, "churn"), "CHURN_LIMIT_QUOTIENT": 65536})
		cc.Genesis = genesisN(rt, 16, true)
		first := fullBlock(rt, 1000)
		for i := 0; i < 3; i++ {
			first.Queue = append(first.Queue, sim.DepPlan{Kind: 0, Amount: 5, Eth1: true}) // 17 ETH: not eligible yet
		}
		nfull := rapid.IntRange(9, 12).Draw(rt, "full")
		for i := 0; i < nfull; i++ {
			first.Queue = append(first.Queue, sim.DepPlan{Kind: 0, Amount: 0, Eth1: true})
		}
		cc.Actions = append(cc.Actions, sim.Action{Kind: "block", Slots: 1, Plan: first})
		topAt := rapid.IntRange(5, 9).Draw(rt, "topup_at")
		for s := 2; s <= 44; s++ {
			b := fullBlock(rt, 1000)
			if s == topAt {
				for _, tg := range []int{45, 75, 18, 16 + 3*(16+3+nfull), 17 + 3*(16+3+nfull)*2} {
					b.Queue = append(b.Queue, sim.DepPlan{Kind: 1, Amount: 3, Eth1: true, Target: tg})
				}
				for i := 0; i < rapid.IntRange(3, 6).Draw(rt, "more"); i++ {
					b.Queue = append(b.Queue, sim.DepPlan{Kind: 0, Amount: 0, Eth1: true})
				}
			}
			cc.Actions = append(cc.Actions, sim.Action{Kind: "block", Slots: 1, Plan: b})
		}
		return cc
	}},
	{"deposits-of-every-kind", func(rt *rapid.T) *sim.ChainCase { return sim.TourDeposits(rt, nil) }},
	{"large-registry", sim.TourLargeRegistry},
	{"upgrades-after-sync-rotation", sim.TourUpgradesAfterSyncRotation},
	{"justification-patterns", sim.TourJustificationPatterns},
	{"ejection-wave-capped-activation-churn", func(rt *rapid.T) *sim.ChainCase {
		// partial participation with large base rewards: the non-attesters of an epoch fall below the
		// ejection balance together, several are ejected at one boundary while get_validator_churn_limit
		// (n/4) exceeds MAX_PER_EPOCH_ACTIVATION_CHURN_LIMIT: from Deneb on activations are capped, exits are not
		fork := rapid.SampledFrom([][4]uint64{{1, 1, 1, 1}, {1, 1, 1, 2}, {1, 2, 2, 2}, {1, 1, 1, farE}, {farE, farE, farE, farE}}).Draw(rt, "forks")
		cc := &sim.ChainCase{Profile: "full"}
		cc.Config = tourConfig(rt, fork, map[string]uint64{"EJECTION_BALANCE": 31_750_000_000,
			"BASE_REWARD_FACTOR":                   rapid.SampledFrom([]uint64{1 << 13, 1 << 14, 1 << 15}).Draw(rt, "brf"),
			"MAX_PER_EPOCH_ACTIVATION_CHURN_LIMIT": rapid.SampledFrom([]uint64{1, 2, 3}).Draw(rt, "cap"),
			"MIN_PER_EPOCH_CHURN_LIMIT":            rapid.SampledFrom([]uint64{1, 2}).Draw(rt, "churn"), "CHURN_LIMIT_QUOTIENT": 4})
		cc.Genesis = genesisN(rt, rapid.IntRange(16, 32).Draw(rt, "n"), true)
		part := rapid.IntRange(300, 800).Draw(rt, "part")
		for s := 1; s <= 28; s++ {
			cc.Actions = append(cc.Actions, sim.Action{Kind: "block", Slots: 1, Plan: fullBlock(rt, part)})
		}
		return cc
	}},
	{"ejection-and-eligibility-in-one-transition", func(rt *rapid.T) *sim.ChainCase {
		// every genesis validator sits at the ejection balance (all are ejected at the first boundary) and a deposit
		// queued in slot 1 wins the eth1 vote with the third block of the 4-slot voting period, so a new validator
		// joins in epoch 0 and becomes eligible for activation in that very transition
		fork := rapid.SampledFrom([][4]uint64{{farE, farE, farE, farE}, {1, farE, farE, farE}, {1, 1, 2, 2}, {1, 1, 1, 1}}).Draw(rt, "forks")
		cc := &sim.ChainCase{Profile: "full"}
		cc.Config = tourConfig(rt, fork, map[string]uint64{"EJECTION_BALANCE": 32_000_000_000,
			"MIN_PER_EPOCH_CHURN_LIMIT": rapid.SampledFrom([]uint64{1, 2, 4}).Draw(rt, "churn"), "CHURN_LIMIT_QUOTIENT": 65536})
		cc.Genesis = genesisN(rt, rapid.IntRange(8, 14).Draw(rt, "n"), true)
		for s := 1; s <= 3; s++ {
			p := fullBlock(rt, 1000)
			if s == 1 {
				for k := rapid.IntRange(1, 3).Draw(rt, "n_deposits"); k > 0; k-- {
					p.Queue = append(p.Queue, sim.DepPlan{Kind: 0, Amount: rapid.SampledFrom([]int{0, 0, 2}).Draw(rt, "amount"), Eth1: true})
				}
			}
			cc.Actions = append(cc.Actions, sim.Action{Kind: "block", Slots: 1, Plan: p})
		}
		for i := 0; i < 4; i++ {
			cc.Actions = append(cc.Actions, sim.Action{Kind: "skip", Slots: rapid.IntRange(1, 5).Draw(rt, "skip")})
		}
		return cc
	}},
}
