// Package refssz is an independent SSZ implementation (schema DSL, strict decoder, encoder,
// merkleization, JSON form) used as the third party in every serialization / hash-tree-root
// comparison and as the state-root function of the reference spec model. It shares no code with
// zrnt or ztyp: plain recursive functions over (schema, value), crypto/sha256.
package refssz

import (
	"fmt"
	"os"
	"path/filepath"
	"strconv"
	"strings"
	"unicode"
)

type Kind int

const (
	KUint Kind = iota
	KBool
	KBytesN   // byte vector
	KByteList // list[uint8, N]
	KVector
	KList
	KBitvector
	KBitlist
	KContainer
)

type Field struct {
	Name string
	T    *Type
}

// Type is a resolved schema (all sizes evaluated against one configuration).
type Type struct {
	Kind   Kind
	Name   string // name of the alias/container this was declared as ("" for inline)
	Bits   int    // KUint: 8,16,32,64,256
	N      uint64 // length (vectors) or limit (lists)
	Elem   *Type
	Fields []Field
}

// U256 is a little-endian 256-bit unsigned integer value.
type U256 [32]byte

// Values: KUint(<=64) uint64 | KUint(256) U256 | KBool bool | KBytesN,KByteList []byte |
// KVector,KList []any | KBitvector,KBitlist []bool | KContainer []any (field order).

func (t *Type) String() string {
	if t.Name != "" {
		return t.Name
	}
	switch t.Kind {
	case KUint:
		return fmt.Sprintf("uint%d", t.Bits)
	case KBool:
		return "bool"
	case KBytesN:
		return fmt.Sprintf("bytes%d", t.N)
	case KByteList:
		return fmt.Sprintf("bytelist[%d]", t.N)
	case KVector:
		return fmt.Sprintf("vector[%s,%d]", t.Elem, t.N)
	case KList:
		return fmt.Sprintf("list[%s,%d]", t.Elem, t.N)
	case KBitvector:
		return fmt.Sprintf("bitvector[%d]", t.N)
	case KBitlist:
		return fmt.Sprintf("bitlist[%d]", t.N)
	}
	return "container"
}

func (t *Type) IsFixed() bool {
	switch t.Kind {
	case KUint, KBool, KBytesN, KBitvector:
		return true
	case KVector:
		return t.Elem.IsFixed()
	case KContainer:
		for _, f := range t.Fields {
			if !f.T.IsFixed() {
				return false
			}
		}
		return true
	}
	return false
}

// FixedSize is the serialized size of a fixed-size type.
func (t *Type) FixedSize() uint64 {
	switch t.Kind {
	case KUint:
		return uint64(t.Bits / 8)
	case KBool:
		return 1
	case KBytesN:
		return t.N
	case KBitvector:
		return (t.N + 7) / 8
	case KVector:
		return t.N * t.Elem.FixedSize()
	case KContainer:
		s := uint64(0)
		for _, f := range t.Fields {
			s += f.T.FixedSize()
		}
		return s
	}
	panic("FixedSize of variable-size type " + t.String())
}

func (t *Type) FieldIndex(name string) int {
	for i, f := range t.Fields {
		if f.Name == name {
			return i
		}
	}
	return -1
}

// ---------------------------------------------------------------- schema table (unresolved)

type rawDecl struct {
	name    string
	expr    string      // alias: type expression
	fields  [][2]string // container: (name, type expr)
	isCont  bool
	goTypes []string
	view    string
	flags   []string
}

type Table struct {
	decls map[string]*rawDecl
	order []string
}

func LoadTable(path string) (*Table, error) {
	b, err := os.ReadFile(path)
	if err != nil {
		return nil, err
	}
	return ParseTable(string(b))
}

// DefaultTablePath locates spec_tables/ssz_schemas.txt under $VERIF_ROOT (default /verif).
func DefaultTablePath() string {
	root := os.Getenv("VERIF_ROOT")
	if root == "" {
		root = "/verif"
	}
	return filepath.Join(root, "spec_tables", "ssz_schemas.txt")
}

func parseAttrs(d *rawDecl, toks []string) {
	for _, tk := range toks {
		switch {
		case strings.HasPrefix(tk, "go="):
			d.goTypes = strings.Split(tk[3:], ",")
		case strings.HasPrefix(tk, "view="):
			d.view = tk[5:]
		default:
			d.flags = append(d.flags, tk)
		}
	}
}

func ParseTable(src string) (*Table, error) {
	t := &Table{decls: map[string]*rawDecl{}}
	var cur *rawDecl
	for ln, line := range strings.Split(src, "\n") {
		if i := strings.Index(line, "#"); i >= 0 {
			line = line[:i]
		}
		line = strings.TrimSpace(line)
		if line == "" {
			continue
		}
		if cur != nil {
			if line == "end" {
				cur = nil
				continue
			}
			sp := strings.IndexAny(line, " \t")
			if sp < 0 {
				return nil, fmt.Errorf("line %d: bad field", ln+1)
			}
			cur.fields = append(cur.fields, [2]string{line[:sp], strings.TrimSpace(line[sp:])})
			continue
		}
		switch {
		case strings.HasPrefix(line, "container "):
			toks := strings.Fields(line)
			d := &rawDecl{name: toks[1], isCont: true}
			parseAttrs(d, toks[2:])
			t.decls[d.name] = d
			t.order = append(t.order, d.name)
			cur = d
		case strings.HasPrefix(line, "alias "):
			rest := strings.TrimSpace(line[6:])
			eq := strings.Index(rest, "=")
			name := strings.TrimSpace(rest[:eq])
			rhs := strings.TrimSpace(rest[eq+1:])
			// the type expression ends where the attributes (go=, view=, flags) start
			cut := len(rhs)
			for _, marker := range []string{" go=", " view=", " helper", " legacy"} {
				if i := strings.Index(rhs, marker); i >= 0 && i < cut {
					cut = i
				}
			}
			d := &rawDecl{name: name, expr: strings.TrimSpace(rhs[:cut])}
			parseAttrs(d, strings.Fields(rhs[cut:]))
			t.decls[name] = d
			t.order = append(t.order, name)
		default:
			return nil, fmt.Errorf("line %d: cannot parse %q", ln+1, line)
		}
	}
	return t, nil
}

// Names in declaration order.
func (t *Table) Names() []string { return append([]string{}, t.order...) }

// GoTypes bound to a declaration ("pkg.Type").
func (t *Table) GoTypes(name string) []string { return t.decls[name].goTypes }
func (t *Table) ViewExpr(name string) string  { return t.decls[name].view }
func (t *Table) Flags(name string) []string   { return t.decls[name].flags }

// Schema is the table resolved against one configuration.
type Schema struct {
	tab   *Table
	cfg   map[string]uint64
	types map[string]*Type
}

func (t *Table) Resolve(cfg map[string]uint64) *Schema {
	return &Schema{tab: t, cfg: cfg, types: map[string]*Type{}}
}

func (s *Schema) Get(name string) (*Type, error) {
	if ty, ok := s.types[name]; ok {
		return ty, nil
	}
	d, ok := s.tab.decls[name]
	if !ok {
		return nil, fmt.Errorf("unknown type %q", name)
	}
	if d.isCont {
		ty := &Type{Kind: KContainer, Name: name}
		for _, f := range d.fields {
			ft, err := s.parseType(f[1])
			if err != nil {
				return nil, fmt.Errorf("%s.%s: %w", name, f[0], err)
			}
			ty.Fields = append(ty.Fields, Field{Name: f[0], T: ft})
		}
		s.types[name] = ty
		return ty, nil
	}
	inner, err := s.parseType(d.expr)
	if err != nil {
		return nil, fmt.Errorf("%s: %w", name, err)
	}
	cp := *inner
	cp.Name = name
	s.types[name] = &cp
	return &cp, nil
}

func (s *Schema) MustGet(name string) *Type {
	t, err := s.Get(name)
	if err != nil {
		panic(err)
	}
	return t
}

func splitTop(s string) []string {
	depth, last := 0, 0
	var out []string
	for i, c := range s {
		switch c {
		case '[', '(':
			depth++
		case ']', ')':
			depth--
		case ',':
			if depth == 0 {
				out = append(out, strings.TrimSpace(s[last:i]))
				last = i + 1
			}
		}
	}
	return append(out, strings.TrimSpace(s[last:]))
}

func (s *Schema) parseType(e string) (*Type, error) {
	e = strings.TrimSpace(e)
	switch e {
	case "uint8", "uint16", "uint32", "uint64", "uint256":
		b, _ := strconv.Atoi(e[4:])
		return &Type{Kind: KUint, Bits: b}, nil
	case "bool":
		return &Type{Kind: KBool}, nil
	}
	if strings.HasPrefix(e, "bytes") && !strings.HasPrefix(e, "bytelist") {
		if n, err := strconv.ParseUint(e[5:], 10, 64); err == nil {
			return &Type{Kind: KBytesN, N: n}, nil
		}
	}
	if i := strings.Index(e, "["); i > 0 && strings.HasSuffix(e, "]") {
		head, args := e[:i], splitTop(e[i+1:len(e)-1])
		switch head {
		case "vector", "list":
			if len(args) != 2 {
				return nil, fmt.Errorf("bad %s args %q", head, e)
			}
			el, err := s.parseType(args[0])
			if err != nil {
				return nil, err
			}
			n, err := s.eval(args[1])
			if err != nil {
				return nil, err
			}
			k := KVector
			if head == "list" {
				k = KList
			}
			return &Type{Kind: k, Elem: el, N: n}, nil
		case "bitvector", "bitlist", "bytelist":
			n, err := s.eval(args[0])
			if err != nil {
				return nil, err
			}
			k := map[string]Kind{"bitvector": KBitvector, "bitlist": KBitlist, "bytelist": KByteList}[head]
			return &Type{Kind: k, N: n}, nil
		}
	}
	return s.Get(e)
}

// eval evaluates an arithmetic expression over configuration names: + - * / and parentheses.
func (s *Schema) eval(e string) (uint64, error) {
	p := &exprParser{s: e, cfg: s.cfg}
	v, err := p.sum()
	if err != nil {
		return 0, err
	}
	p.ws()
	if p.i != len(p.s) {
		return 0, fmt.Errorf("trailing input in expression %q", e)
	}
	return v, nil
}

type exprParser struct {
	s   string
	i   int
	cfg map[string]uint64
}

func (p *exprParser) ws() {
	for p.i < len(p.s) && p.s[p.i] == ' ' {
		p.i++
	}
}
func (p *exprParser) sum() (uint64, error) {
	v, err := p.prod()
	if err != nil {
		return 0, err
	}
	for {
		p.ws()
		if p.i < len(p.s) && (p.s[p.i] == '+' || p.s[p.i] == '-') {
			op := p.s[p.i]
			p.i++
			w, err := p.prod()
			if err != nil {
				return 0, err
			}
			if op == '+' {
				v += w
			} else {
				v -= w
			}
			continue
		}
		return v, nil
	}
}
func (p *exprParser) prod() (uint64, error) {
	v, err := p.atom()
	if err != nil {
		return 0, err
	}
	for {
		p.ws()
		if p.i < len(p.s) && (p.s[p.i] == '*' || p.s[p.i] == '/') {
			op := p.s[p.i]
			p.i++
			w, err := p.atom()
			if err != nil {
				return 0, err
			}
			if op == '*' {
				v *= w
			} else {
				if w == 0 {
					return 0, fmt.Errorf("division by zero in %q", p.s)
				}
				v /= w
			}
			continue
		}
		return v, nil
	}
}
func (p *exprParser) atom() (uint64, error) {
	p.ws()
	if p.i < len(p.s) && p.s[p.i] == '(' {
		p.i++
		v, err := p.sum()
		if err != nil {
			return 0, err
		}
		p.ws()
		if p.i >= len(p.s) || p.s[p.i] != ')' {
			return 0, fmt.Errorf("missing ) in %q", p.s)
		}
		p.i++
		return v, nil
	}
	st := p.i
	for p.i < len(p.s) && (unicode.IsLetter(rune(p.s[p.i])) || unicode.IsDigit(rune(p.s[p.i])) || p.s[p.i] == '_') {
		p.i++
	}
	tok := p.s[st:p.i]
	if tok == "" {
		return 0, fmt.Errorf("bad expression %q", p.s)
	}
	if n, err := strconv.ParseUint(tok, 10, 64); err == nil {
		return n, nil
	}
	v, ok := p.cfg[tok]
	if !ok {
		return 0, fmt.Errorf("unknown configuration name %q", tok)
	}
	return v, nil
}
