package refssz

// Perturb returns a value of type t that differs from v in its first leaf only.
func Perturb(t *Type, v any) any {
	switch t.Kind {
	case KUint:
		if t.Bits == 256 {
			u := v.(U256)
			u[0] ^= 1
			return u
		}
		mask := ^uint64(0)
		if t.Bits < 64 {
			mask = (uint64(1) << uint(t.Bits)) - 1
		}
		return (v.(uint64) + 1) & mask
	case KBool:
		return !v.(bool)
	case KBytesN:
		b := append([]byte{}, v.([]byte)...)
		b[0] ^= 1
		return b
	case KByteList:
		b := append([]byte{}, v.([]byte)...)
		if len(b) == 0 {
			return []byte{1}
		}
		b[0] ^= 1
		return b
	case KBitvector:
		b := append([]bool{}, v.([]bool)...)
		b[0] = !b[0]
		return b
	case KBitlist:
		b := append([]bool{}, v.([]bool)...)
		if len(b) == 0 {
			return []bool{true}
		}
		b[0] = !b[0]
		return b
	case KVector:
		x := append([]any{}, v.([]any)...)
		x[0] = Perturb(t.Elem, x[0])
		return x
	case KList:
		x := append([]any{}, v.([]any)...)
		if len(x) == 0 {
			return []any{Default(t.Elem)}
		}
		x[0] = Perturb(t.Elem, x[0])
		return x
	case KContainer:
		x := append([]any{}, v.([]any)...)
		x[0] = Perturb(t.Fields[0].T, x[0])
		return x
	}
	panic("Perturb: unknown kind")
}

// NearValue returns the container value v with exactly its (k mod #fields)-th field perturbed.
func NearValue(t *Type, v any, k uint64) any {
	if t.Kind != KContainer || len(t.Fields) == 0 {
		return Perturb(t, v)
	}
	x := append([]any{}, v.([]any)...)
	i := int(k % uint64(len(t.Fields)))
	x[i] = Perturb(t.Fields[i].T, x[i])
	return x
}
