package refssz

import (
	"encoding/binary"
	"fmt"
	"sort"
)

// Helpers that derive malformed encodings from a valid (type, value) pair, in the three classes
// property C04 names: truncation, list/bitlist/bytelist one over its limit, inconsistent offsets.
// Everything here is deterministic in (t, v).

// OffsetGroup is the offset table of one variable-size scope (a container with >=1
// variable-size field, or a list/vector of variable-size elements) inside an encoding.
type OffsetGroup struct {
	Path       string
	ScopeStart int   // absolute position of the scope's first byte
	ScopeLen   int   // byte length of the scope
	FixedLen   int   // length of the fixed part (containers) / of the offset table (lists)
	Pos        []int // absolute position of each 4-byte offset
	Val        []uint32
}

// Layout of a valid encoding: boundaries (absolute positions at which a field, element or
// variable part starts or ends) and all offset tables.
type Layout struct {
	Boundaries []int
	Groups     []OffsetGroup
}

func Analyze(t *Type, v any) *Layout {
	l := &Layout{}
	seen := map[int]bool{}
	var walk func(t *Type, v any, base int, path string, depth int) int
	add := func(p int) {
		if !seen[p] {
			seen[p] = true
			l.Boundaries = append(l.Boundaries, p)
		}
	}
	walk = func(t *Type, v any, base int, path string, depth int) int {
		switch t.Kind {
		case KContainer:
			vals := v.([]any)
			fixedLen := 0
			for _, f := range t.Fields {
				if f.T.IsFixed() {
					fixedLen += int(f.T.FixedSize())
				} else {
					fixedLen += 4
				}
			}
			pos := base
			g := OffsetGroup{Path: path, ScopeStart: base, FixedLen: fixedLen}
			varPos := base + fixedLen
			for i, f := range t.Fields {
				add(pos)
				if f.T.IsFixed() {
					pos += walk(f.T, vals[i], pos, path+"."+f.Name, depth+1)
				} else {
					g.Pos = append(g.Pos, pos)
					g.Val = append(g.Val, uint32(varPos-base))
					pos += 4
					add(varPos)
					varPos += walk(f.T, vals[i], varPos, path+"."+f.Name, depth+1)
				}
			}
			add(varPos)
			g.ScopeLen = varPos - base
			if len(g.Pos) > 0 {
				l.Groups = append(l.Groups, g)
			}
			return varPos - base
		case KVector, KList:
			elems := v.([]any)
			if t.Elem.IsFixed() {
				es := int(t.Elem.FixedSize())
				// element boundaries of long basic lists are uninteresting: first, second, last
				for i, e := range elems {
					if i < 2 || i == len(elems)-1 {
						add(base + i*es)
						if !isBasic(t.Elem) && t.Elem.Kind != KBytesN {
							walk(t.Elem, e, base+i*es, fmt.Sprintf("%s[%d]", path, i), depth+1)
						}
					}
				}
				return es * len(elems)
			}
			g := OffsetGroup{Path: path, ScopeStart: base, FixedLen: 4 * len(elems)}
			varPos := base + 4*len(elems)
			for i, e := range elems {
				g.Pos = append(g.Pos, base+4*i)
				g.Val = append(g.Val, uint32(varPos-base))
				add(varPos)
				varPos += walk(t.Elem, e, varPos, fmt.Sprintf("%s[%d]", path, i), depth+1)
			}
			add(varPos)
			g.ScopeLen = varPos - base
			if len(g.Pos) > 0 {
				l.Groups = append(l.Groups, g)
			}
			return varPos - base
		default:
			return len(Serialize(t, v))
		}
	}
	total := walk(t, v, 0, "", 0)
	add(0)
	add(total)
	sort.Ints(l.Boundaries)
	return l
}

// Mutant is one malformed (or at least altered) encoding with a description of how it was made.
type Mutant struct {
	Class string // truncation | over-limit | offset
	Desc  string
	B     []byte
}

// Truncations cuts b at every boundary and at boundary±1, plus len-1; at most max cuts
// (evenly thinned, always keeping the first and last few).
func Truncations(l *Layout, b []byte, max int) []Mutant {
	cuts := map[int]bool{}
	for _, p := range l.Boundaries {
		for _, q := range []int{p - 1, p, p + 1} {
			if q >= 0 && q < len(b) {
				cuts[q] = true
			}
		}
	}
	if len(b) > 0 {
		cuts[len(b)-1] = true
	}
	ps := make([]int, 0, len(cuts))
	for p := range cuts {
		ps = append(ps, p)
	}
	sort.Ints(ps)
	if max > 0 && len(ps) > max {
		thin := make([]int, 0, max)
		for i := 0; i < max; i++ {
			thin = append(thin, ps[i*(len(ps)-1)/(max-1)])
		}
		ps = thin
	}
	out := make([]Mutant, 0, len(ps))
	last := -1
	for _, p := range ps {
		if p == last {
			continue
		}
		last = p
		out = append(out, Mutant{Class: "truncation", Desc: fmt.Sprintf("cut at %d of %d", p, len(b)), B: append([]byte{}, b[:p]...)})
	}
	return out
}

func putOff(b []byte, pos int, v uint32) []byte {
	out := append([]byte{}, b...)
	binary.LittleEndian.PutUint32(out[pos:], v)
	return out
}

// OffsetCorruptions rewrites offsets of up to maxGroups offset tables: first offset ±1, two
// offsets swapped, an offset beyond the scope, an offset pointing into the fixed part.
func OffsetCorruptions(l *Layout, b []byte, maxGroups int) []Mutant {
	var out []Mutant
	groups := l.Groups
	if maxGroups > 0 && len(groups) > maxGroups {
		// keep the outermost (recorded last) and a spread of the others
		thin := make([]OffsetGroup, 0, maxGroups)
		for i := 0; i < maxGroups; i++ {
			thin = append(thin, groups[i*(len(groups)-1)/(maxGroups-1)])
		}
		groups = thin
	}
	for _, g := range groups {
		d := func(s string, args ...any) string {
			return fmt.Sprintf("%s offsets@%d: ", g.Path, g.ScopeStart) + fmt.Sprintf(s, args...)
		}
		first := g.Val[0]
		out = append(out, Mutant{"offset", d("first offset %d+1", first), putOff(b, g.Pos[0], first+1)})
		if first > 0 {
			out = append(out, Mutant{"offset", d("first offset %d-1", first), putOff(b, g.Pos[0], first-1)})
		}
		n := len(g.Pos)
		if n >= 2 {
			for _, pair := range [][2]int{{0, 1}, {n - 2, n - 1}, {0, n - 1}} {
				i, j := pair[0], pair[1]
				if g.Val[i] != g.Val[j] {
					m := putOff(b, g.Pos[i], g.Val[j])
					binary.LittleEndian.PutUint32(m[g.Pos[j]:], g.Val[i])
					out = append(out, Mutant{"offset", d("offsets %d and %d swapped (%d,%d)", i, j, g.Val[i], g.Val[j]), m})
				}
			}
		}
		// an element with an empty span that is NOT the last one (offsets stay ascending and inside the scope):
		// offset i raised to offset i+1, or offset i+1 lowered to offset i
		if n >= 3 {
			seenEq := map[int]bool{}
			for _, i := range []int{0, n/2 - 1, n - 3} {
				if i < 0 || seenEq[i] {
					continue
				}
				seenEq[i] = true
				if g.Val[i] != g.Val[i+1] {
					out = append(out, Mutant{"offset", d("offset %d raised to offset %d (%d): element %d has an empty span", i, i+1, g.Val[i+1], i), putOff(b, g.Pos[i], g.Val[i+1])})
					out = append(out, Mutant{"offset", d("offset %d lowered to offset %d (%d): element %d has an empty span", i+1, i, g.Val[i], i), putOff(b, g.Pos[i+1], g.Val[i])})
				}
			}
		}
		lastI := n - 1
		out = append(out, Mutant{"offset", d("offset %d set beyond scope (%d > %d)", lastI, g.ScopeLen+1, g.ScopeLen), putOff(b, g.Pos[lastI], uint32(g.ScopeLen+1))})
		out = append(out, Mutant{"offset", d("offset %d set to 0xffffffff", lastI), putOff(b, g.Pos[lastI], 0xffffffff)})
		if n >= 2 {
			out = append(out, Mutant{"offset", d("offset 0 set beyond scope"), putOff(b, g.Pos[0], uint32(g.ScopeLen+1))})
		}
		// into the fixed part
		for _, i := range []int{0, lastI} {
			if i == lastI && lastI == 0 {
				continue
			}
			for _, val := range []int{g.FixedLen - 4, g.FixedLen - 1, 0} {
				if val >= 0 && uint32(val) != g.Val[i] {
					out = append(out, Mutant{"offset", d("offset %d set into the fixed part (%d < %d)", i, val, g.FixedLen), putOff(b, g.Pos[i], uint32(val))})
				}
			}
		}
	}
	return out
}

// OverLimit returns, for each list / bitlist / bytelist node of t reachable in v (first element
// of enclosing lists/vectors) whose limit+1 <= cap, an encoding in which that node holds
// limit+1 items, produced by the reference encoder with the limit raised in a copy of the type.
func OverLimit(t *Type, v any, cap uint64) []Mutant {
	type variant struct {
		desc string
		t    *Type
		v    any
	}
	var rec func(t *Type, v any, path string) []variant
	rec = func(t *Type, v any, path string) []variant {
		var out []variant
		switch t.Kind {
		case KByteList:
			if t.N+1 <= cap {
				b := append([]byte{}, v.([]byte)...)
				for uint64(len(b)) < t.N+1 {
					b = append(b, byte(0xA0+len(b)%7))
				}
				t2 := *t
				t2.N = t.N + 1
				out = append(out, variant{fmt.Sprintf("%s: byte list of %d over limit %d", path, t.N+1, t.N), &t2, b})
			}
		case KBitlist:
			if t.N+1 <= cap {
				for _, extra := range []uint64{1, 8} {
					bits := append([]bool{}, v.([]bool)...)
					for uint64(len(bits)) < t.N+extra {
						bits = append(bits, len(bits)%3 == 0)
					}
					t2 := *t
					t2.N = t.N + extra
					out = append(out, variant{fmt.Sprintf("%s: bitlist of %d bits over limit %d", path, t.N+extra, t.N), &t2, bits})
				}
			}
		case KList:
			elems := v.([]any)
			if t.N+1 <= cap {
				e2 := append([]any{}, elems...)
				for uint64(len(e2)) < t.N+1 {
					if len(elems) > 0 {
						e2 = append(e2, Clone(t.Elem, elems[len(e2)%len(elems)]))
					} else {
						e2 = append(e2, Default(t.Elem))
					}
				}
				t2 := *t
				t2.N = t.N + 1
				out = append(out, variant{fmt.Sprintf("%s: list of %d over limit %d", path, t.N+1, t.N), &t2, e2})
			}
			if len(elems) > 0 {
				for _, sub := range rec(t.Elem, elems[0], path+"[0]") {
					t2 := *t
					t2.Elem = sub.t
					e2 := append([]any{}, elems...)
					e2[0] = sub.v
					out = append(out, variant{sub.desc, &t2, e2})
				}
			}
		case KVector:
			elems := v.([]any)
			if len(elems) > 0 && !isBasic(t.Elem) && t.Elem.Kind != KBytesN {
				for _, sub := range rec(t.Elem, elems[0], path+"[0]") {
					t2 := *t
					t2.Elem = sub.t
					e2 := append([]any{}, elems...)
					e2[0] = sub.v
					out = append(out, variant{sub.desc, &t2, e2})
				}
			}
		case KContainer:
			vals := v.([]any)
			for i, f := range t.Fields {
				for _, sub := range rec(f.T, vals[i], path+"."+f.Name) {
					t2 := *t
					t2.Fields = append([]Field{}, t.Fields...)
					t2.Fields[i].T = sub.t
					v2 := append([]any{}, vals...)
					v2[i] = sub.v
					out = append(out, variant{sub.desc, &t2, v2})
				}
			}
		}
		return out
	}
	var out []Mutant
	for _, vr := range rec(t, v, "") {
		out = append(out, Mutant{Class: "over-limit", Desc: vr.desc, B: Serialize(vr.t, vr.v)})
	}
	return out
}

// ListShapes reports, for a value, whether some list/bitlist/bytelist node sits exactly at its
// limit and whether some sits at limit-1 (evidence classes).
func ListShapes(t *Type, v any) (atLimit, nonEmpty int) {
	switch t.Kind {
	case KByteList:
		n := uint64(len(v.([]byte)))
		if n == t.N {
			atLimit++
		}
		if n > 0 {
			nonEmpty++
		}
	case KBitlist:
		n := uint64(len(v.([]bool)))
		if n == t.N {
			atLimit++
		}
		if n > 0 {
			nonEmpty++
		}
	case KList, KVector:
		elems := v.([]any)
		if t.Kind == KList {
			if uint64(len(elems)) == t.N {
				atLimit++
			}
			if len(elems) > 0 {
				nonEmpty++
			}
		}
		if !isBasic(t.Elem) && t.Elem.Kind != KBytesN {
			for i, e := range elems {
				if i >= 4 {
					break
				}
				a, b := ListShapes(t.Elem, e)
				atLimit += a
				nonEmpty += b
			}
		}
	case KContainer:
		vals := v.([]any)
		for i, f := range t.Fields {
			a, b := ListShapes(f.T, vals[i])
			atLimit += a
			nonEmpty += b
		}
	}
	return
}

// HasLists reports whether t contains any list / bitlist / bytelist node.
func HasLists(t *Type) bool {
	switch t.Kind {
	case KByteList, KBitlist, KList:
		return true
	case KVector:
		return HasLists(t.Elem)
	case KContainer:
		for _, f := range t.Fields {
			if HasLists(f.T) {
				return true
			}
		}
	}
	return false
}
