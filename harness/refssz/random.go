package refssz

import (
	"encoding/hex"
	"fmt"
	"math/big"
	"strconv"
	"strings"

	"pgregory.net/rapid"
)

// GenOpts steers Random.
type GenOpts struct {
	MaxList   int  // cap on generated list lengths when the limit is larger (default 4)
	AtLimit   bool // push every list/bitlist/bytelist whose limit <= LimitCap to exactly its limit
	LimitCap  int  // lists with limit <= LimitCap may be generated at the limit (default 64)
	Minimal   bool // all lists empty, scalars still random
	BigVector int  // vectors longer than this are filled sparsely (default 64)
}

func (o *GenOpts) defaults() {
	if o.MaxList == 0 {
		o.MaxList = 4
	}
	if o.LimitCap == 0 {
		o.LimitCap = 64
	}
	if o.BigVector == 0 {
		o.BigVector = 64
	}
}

func (o *GenOpts) listLen(t *rapid.T, limit uint64, label string) int {
	if o.Minimal {
		return 0
	}
	if limit <= uint64(o.LimitCap) {
		if o.AtLimit {
			return int(limit)
		}
		// bias to {0, 1, limit-1, limit}
		switch rapid.IntRange(0, 5).Draw(t, label+"_lk") {
		case 0:
			return 0
		case 1:
			if limit >= 1 {
				return 1
			}
			return 0
		case 2:
			if limit >= 1 {
				return int(limit - 1)
			}
			return 0
		case 3:
			return int(limit)
		default:
			return rapid.IntRange(0, int(limit)).Draw(t, label+"_len")
		}
	}
	max := o.MaxList
	if uint64(max) > limit {
		max = int(limit)
	}
	return rapid.IntRange(0, max).Draw(t, label+"_len")
}

func randBytes(t *rapid.T, n int, label string) []byte {
	if n == 0 {
		return []byte{}
	}
	if n > 64 {
		// long byte strings: random head and tail, patterned middle (cheap for rapid)
		out := make([]byte, n)
		seed := rapid.SliceOfN(rapid.Byte(), 16, 16).Draw(t, label)
		for i := range out {
			out[i] = seed[i%16] ^ byte(i*31)
		}
		return out
	}
	return rapid.SliceOfN(rapid.Byte(), n, n).Draw(t, label)
}

func randU64(t *rapid.T, label string) uint64 {
	switch rapid.IntRange(0, 7).Draw(t, label+"_k") {
	case 0:
		return rapid.Uint64Range(0, 2).Draw(t, label)
	case 1:
		return ^uint64(0) - rapid.Uint64Range(0, 2).Draw(t, label)
	case 2:
		return rapid.Uint64Range(1, 1<<20).Draw(t, label)
	default:
		return rapid.Uint64Range(1, ^uint64(0)).Draw(t, label)
	}
}

// Random draws an in-limit value of type t.
func Random(rt *rapid.T, t *Type, o GenOpts, label string) any {
	o.defaults()
	return random(rt, t, &o, label)
}

func random(rt *rapid.T, t *Type, o *GenOpts, label string) any {
	switch t.Kind {
	case KUint:
		switch t.Bits {
		case 8:
			return uint64(rapid.Byte().Draw(rt, label))
		case 16:
			return uint64(rapid.Uint16().Draw(rt, label))
		case 32:
			return uint64(rapid.Uint32().Draw(rt, label))
		case 64:
			return randU64(rt, label)
		case 256:
			var u U256
			copy(u[:], randBytes(rt, 32, label))
			if rapid.IntRange(0, 3).Draw(rt, label+"_small") == 0 {
				for i := 8; i < 32; i++ {
					u[i] = 0
				}
			}
			return u
		}
	case KBool:
		return rapid.Bool().Draw(rt, label)
	case KBytesN:
		return randBytes(rt, int(t.N), label)
	case KByteList:
		n := o.listLen(rt, t.N, label)
		if !o.Minimal && !o.AtLimit && t.N > uint64(o.LimitCap) && rapid.IntRange(0, 3).Draw(rt, label+"_long") == 0 {
			n = rapid.IntRange(0, 100).Draw(rt, label+"_blen")
			if uint64(n) > t.N {
				n = int(t.N)
			}
		}
		return randBytes(rt, n, label)
	case KBitvector:
		out := make([]bool, t.N)
		if t.N <= 64 {
			for i := range out {
				out[i] = rapid.Bool().Draw(rt, label)
			}
		} else {
			pat := rapid.SliceOfN(rapid.Bool(), 32, 32).Draw(rt, label)
			for i := range out {
				out[i] = pat[(i*7)%32]
			}
			out[len(out)-1] = rapid.Bool().Draw(rt, label+"_last")
		}
		return out
	case KBitlist:
		var n int
		if o.Minimal {
			n = 0
		} else if o.AtLimit && t.N <= 4096 {
			n = int(t.N)
		} else {
			lim := int(t.N)
			if lim > 70 {
				lim = 70
			}
			// bias to multiples of 8 ± 1
			switch rapid.IntRange(0, 3).Draw(rt, label+"_bk") {
			case 0:
				n = 8*rapid.IntRange(0, lim/8).Draw(rt, label+"_b8") + rapid.IntRange(-1, 1).Draw(rt, label+"_bd")
			default:
				n = rapid.IntRange(0, lim).Draw(rt, label+"_bn")
			}
			if n < 0 {
				n = 0
			}
			if n > int(t.N) {
				n = int(t.N)
			}
		}
		out := make([]bool, n)
		if n <= 70 {
			for i := range out {
				out[i] = rapid.Bool().Draw(rt, label)
			}
		} else {
			pat := rapid.SliceOfN(rapid.Bool(), 32, 32).Draw(rt, label)
			for i := range out {
				out[i] = pat[(i*5)%32]
			}
		}
		return out
	case KVector:
		out := make([]any, t.N)
		if int(t.N) > o.BigVector {
			for i := range out {
				out[i] = Default(t.Elem)
			}
			k := rapid.IntRange(1, 6).Draw(rt, label+"_nz")
			for j := 0; j < k; j++ {
				var idx int
				switch j {
				case 0:
					idx = 0
				case 1:
					idx = int(t.N) - 1
				default:
					idx = rapid.IntRange(0, int(t.N)-1).Draw(rt, label+"_vi")
				}
				out[idx] = random(rt, t.Elem, o, label)
			}
			return out
		}
		for i := range out {
			out[i] = random(rt, t.Elem, o, label)
		}
		return out
	case KList:
		n := o.listLen(rt, t.N, label)
		out := make([]any, n)
		for i := range out {
			out[i] = random(rt, t.Elem, o, label)
		}
		return out
	case KContainer:
		out := make([]any, len(t.Fields))
		for i, f := range t.Fields {
			out[i] = random(rt, f.T, o, f.Name)
		}
		return out
	}
	panic("unknown kind")
}

// NonDefault reports whether v has at least one non-default leaf and (for variable-size types) a
// non-empty list somewhere.
func NonDefault(t *Type, v any) (nonDefault bool, nonEmptyList bool) {
	switch t.Kind {
	case KUint:
		if t.Bits == 256 {
			return v.(U256) != U256{}, false
		}
		return v.(uint64) != 0, false
	case KBool:
		return v.(bool), false
	case KBytesN:
		for _, b := range v.([]byte) {
			if b != 0 {
				return true, false
			}
		}
		return false, false
	case KByteList:
		return len(v.([]byte)) > 0, len(v.([]byte)) > 0
	case KBitvector:
		for _, b := range v.([]bool) {
			if b {
				return true, false
			}
		}
		return false, false
	case KBitlist:
		return len(v.([]bool)) > 0, len(v.([]bool)) > 0
	case KVector, KList:
		x := v.([]any)
		nd, nl := t.Kind == KList && len(x) > 0, t.Kind == KList && len(x) > 0
		for _, e := range x {
			a, b := NonDefault(t.Elem, e)
			nd, nl = nd || a, nl || b
			if nd && nl {
				break
			}
		}
		return nd, nl
	case KContainer:
		x := v.([]any)
		nd, nl := false, false
		for i, f := range t.Fields {
			a, b := NonDefault(f.T, x[i])
			nd, nl = nd || a, nl || b
		}
		return nd, nl
	}
	return false, false
}

// ---------------------------------------------------------------- JSON (beacon-API conventions)

// ToJSON renders v as generic JSON data: uints as decimal strings, bytes and bitfields as
// 0x-hex of their SSZ bytes, containers as objects keyed by the spec field names.
func ToJSON(t *Type, v any) any {
	switch t.Kind {
	case KUint:
		if t.Bits == 256 {
			u := v.(U256)
			be := make([]byte, 32)
			for i := range u {
				be[31-i] = u[i]
			}
			return new(big.Int).SetBytes(be).String()
		}
		return strconv.FormatUint(v.(uint64), 10)
	case KBool:
		return v.(bool)
	case KBytesN, KByteList:
		return "0x" + hex.EncodeToString(v.([]byte))
	case KBitvector:
		return "0x" + hex.EncodeToString(packBits(v.([]bool), false))
	case KBitlist:
		return "0x" + hex.EncodeToString(packBits(v.([]bool), true))
	case KVector, KList:
		x := v.([]any)
		out := make([]any, len(x))
		for i := range x {
			out[i] = ToJSON(t.Elem, x[i])
		}
		return out
	case KContainer:
		x := v.([]any)
		out := map[string]any{}
		for i, f := range t.Fields {
			out[f.Name] = ToJSON(f.T, x[i])
		}
		return out
	}
	panic("unknown kind")
}

// FromJSON is the inverse of ToJSON; it also accepts bare JSON numbers for uints.
func FromJSON(t *Type, j any) (any, error) {
	switch t.Kind {
	case KUint:
		var s string
		switch x := j.(type) {
		case string:
			s = x
		case float64:
			s = strconv.FormatFloat(x, 'f', 0, 64)
		default:
			return nil, fmt.Errorf("uint: unexpected %T", j)
		}
		if t.Bits == 256 {
			n, ok := new(big.Int).SetString(s, 0)
			if !ok || n.Sign() < 0 || n.BitLen() > 256 {
				return nil, fmt.Errorf("bad uint256 %q", s)
			}
			be := n.FillBytes(make([]byte, 32))
			var u U256
			for i := range u {
				u[i] = be[31-i]
			}
			return u, nil
		}
		n, err := strconv.ParseUint(s, 10, t.Bits)
		if err != nil {
			return nil, err
		}
		return n, nil
	case KBool:
		b, ok := j.(bool)
		if !ok {
			return nil, fmt.Errorf("bool: unexpected %T", j)
		}
		return b, nil
	case KBytesN, KByteList, KBitvector, KBitlist:
		s, ok := j.(string)
		if !ok {
			return nil, fmt.Errorf("bytes: unexpected %T", j)
		}
		b, err := hex.DecodeString(strings.TrimPrefix(s, "0x"))
		if err != nil {
			return nil, err
		}
		return Deserialize(t, b)
	case KVector, KList:
		x, ok := j.([]any)
		if !ok {
			return nil, fmt.Errorf("list: unexpected %T", j)
		}
		out := make([]any, len(x))
		for i := range x {
			e, err := FromJSON(t.Elem, x[i])
			if err != nil {
				return nil, err
			}
			out[i] = e
		}
		return out, nil
	case KContainer:
		x, ok := j.(map[string]any)
		if !ok {
			return nil, fmt.Errorf("container: unexpected %T", j)
		}
		out := make([]any, len(t.Fields))
		for i, f := range t.Fields {
			fv, ok := x[f.Name]
			if !ok {
				return nil, fmt.Errorf("missing field %s", f.Name)
			}
			e, err := FromJSON(f.T, fv)
			if err != nil {
				return nil, fmt.Errorf("%s: %w", f.Name, err)
			}
			out[i] = e
		}
		return out, nil
	}
	return nil, fmt.Errorf("unknown kind")
}
