package refssz

import (
	"bytes"
	"crypto/sha256"
	"encoding/binary"
	"errors"
	"fmt"
	"strings"
)

// ---------------------------------------------------------------- defaults

func Default(t *Type) any {
	switch t.Kind {
	case KUint:
		if t.Bits == 256 {
			return U256{}
		}
		return uint64(0)
	case KBool:
		return false
	case KBytesN:
		return make([]byte, t.N)
	case KByteList:
		return []byte{}
	case KVector:
		out := make([]any, t.N)
		for i := range out {
			out[i] = Default(t.Elem)
		}
		return out
	case KList:
		return []any{}
	case KBitvector:
		return make([]bool, t.N)
	case KBitlist:
		return []bool{}
	case KContainer:
		out := make([]any, len(t.Fields))
		for i, f := range t.Fields {
			out[i] = Default(f.T)
		}
		return out
	}
	panic("unknown kind")
}

// ---------------------------------------------------------------- serialize

func Serialize(t *Type, v any) []byte {
	var buf bytes.Buffer
	serialize(&buf, t, v)
	return buf.Bytes()
}

func packBits(bits []bool, delimiter bool) []byte {
	n := len(bits)
	size := (n + 7) / 8
	if delimiter {
		size = n/8 + 1
	}
	out := make([]byte, size)
	for i, b := range bits {
		if b {
			out[i/8] |= 1 << uint(i%8)
		}
	}
	if delimiter {
		out[n/8] |= 1 << uint(n%8)
	}
	return out
}

func serialize(w *bytes.Buffer, t *Type, v any) {
	switch t.Kind {
	case KUint:
		switch t.Bits {
		case 8:
			w.WriteByte(byte(v.(uint64)))
		case 16:
			var b [2]byte
			binary.LittleEndian.PutUint16(b[:], uint16(v.(uint64)))
			w.Write(b[:])
		case 32:
			var b [4]byte
			binary.LittleEndian.PutUint32(b[:], uint32(v.(uint64)))
			w.Write(b[:])
		case 64:
			var b [8]byte
			binary.LittleEndian.PutUint64(b[:], v.(uint64))
			w.Write(b[:])
		case 256:
			u := v.(U256)
			w.Write(u[:])
		}
	case KBool:
		if v.(bool) {
			w.WriteByte(1)
		} else {
			w.WriteByte(0)
		}
	case KBytesN, KByteList:
		w.Write(v.([]byte))
	case KBitvector:
		w.Write(packBits(v.([]bool), false))
	case KBitlist:
		w.Write(packBits(v.([]bool), true))
	case KVector, KList:
		elems := v.([]any)
		if t.Elem.IsFixed() {
			for _, e := range elems {
				serialize(w, t.Elem, e)
			}
			return
		}
		parts := make([][]byte, len(elems))
		for i, e := range elems {
			parts[i] = Serialize(t.Elem, e)
		}
		off := uint32(4 * len(elems))
		for _, p := range parts {
			var b [4]byte
			binary.LittleEndian.PutUint32(b[:], off)
			w.Write(b[:])
			off += uint32(len(p))
		}
		for _, p := range parts {
			w.Write(p)
		}
	case KContainer:
		vals := v.([]any)
		fixedLen := uint32(0)
		for _, f := range t.Fields {
			if f.T.IsFixed() {
				fixedLen += uint32(f.T.FixedSize())
			} else {
				fixedLen += 4
			}
		}
		var varParts [][]byte
		off := fixedLen
		for i, f := range t.Fields {
			if f.T.IsFixed() {
				serialize(w, f.T, vals[i])
			} else {
				p := Serialize(f.T, vals[i])
				var b [4]byte
				binary.LittleEndian.PutUint32(b[:], off)
				w.Write(b[:])
				off += uint32(len(p))
				varParts = append(varParts, p)
			}
		}
		for _, p := range varParts {
			w.Write(p)
		}
	}
}

// ---------------------------------------------------------------- strict deserialize

var ErrSSZ = errors.New("invalid ssz")

func bad(format string, args ...any) error {
	return fmt.Errorf("%w: %s", ErrSSZ, fmt.Sprintf(format, args...))
}

// Deserialize decodes exactly len(b) bytes as t. It rejects truncation, trailing bytes,
// a first offset that differs from the fixed-part length, decreasing or out-of-scope offsets,
// lists over their limit, bitlists without delimiter or over limit, non-canonical booleans,
// padding bits set in bitvectors, and element-count/size mismatches.
func Deserialize(t *Type, b []byte) (any, error) { return deserialize(t, b, &Lenient{}) }

// Lenient switches off individual checks of the strict decoder that lie OUTSIDE the three
// refusal classes property C04 names (truncation, over-limit, inconsistent offsets). Used by
// the differential fuzz oracle: an input the library accepts must at least decode under the
// leniencies the library is known (and allowed) to have.
type Lenient struct {
	DirtyBool        bool // any byte value >1 reads as true
	BitvectorPadding bool // padding bits of a bitvector may be set
}

func DeserializeLenient(t *Type, b []byte, o Lenient) (any, error) { return deserialize(t, b, &o) }

func deserialize(t *Type, b []byte, o *Lenient) (any, error) {
	switch t.Kind {
	case KUint:
		if uint64(len(b)) != uint64(t.Bits/8) {
			return nil, bad("uint%d needs %d bytes, got %d", t.Bits, t.Bits/8, len(b))
		}
		switch t.Bits {
		case 8:
			return uint64(b[0]), nil
		case 16:
			return uint64(binary.LittleEndian.Uint16(b)), nil
		case 32:
			return uint64(binary.LittleEndian.Uint32(b)), nil
		case 64:
			return binary.LittleEndian.Uint64(b), nil
		case 256:
			var u U256
			copy(u[:], b)
			return u, nil
		}
	case KBool:
		if len(b) != 1 || (b[0] > 1 && !o.DirtyBool) {
			return nil, bad("bool")
		}
		return b[0] != 0, nil
	case KBytesN:
		if uint64(len(b)) != t.N {
			return nil, bad("bytes%d got %d", t.N, len(b))
		}
		return append([]byte{}, b...), nil
	case KByteList:
		if uint64(len(b)) > t.N {
			return nil, bad("byte list of %d over limit %d", len(b), t.N)
		}
		return append([]byte{}, b...), nil
	case KBitvector:
		if uint64(len(b)) != (t.N+7)/8 {
			return nil, bad("bitvector[%d] got %d bytes", t.N, len(b))
		}
		out := make([]bool, t.N)
		for i := range out {
			out[i] = b[i/8]&(1<<uint(i%8)) != 0
		}
		if t.N%8 != 0 && b[len(b)-1]>>(t.N%8) != 0 && !o.BitvectorPadding {
			return nil, bad("bitvector padding bits set")
		}
		return out, nil
	case KBitlist:
		if len(b) == 0 {
			return nil, bad("bitlist without delimiter byte")
		}
		last := b[len(b)-1]
		if last == 0 {
			return nil, bad("bitlist last byte has no delimiter bit")
		}
		msb := 7
		for last&(1<<uint(msb)) == 0 {
			msb--
		}
		n := uint64(len(b)-1)*8 + uint64(msb)
		if n > t.N {
			return nil, bad("bitlist of %d bits over limit %d", n, t.N)
		}
		out := make([]bool, n)
		for i := range out {
			out[i] = b[i/8]&(1<<uint(i%8)) != 0
		}
		return out, nil
	case KVector, KList:
		if t.Elem.IsFixed() {
			es := t.Elem.FixedSize()
			if es == 0 {
				return nil, bad("zero-size element")
			}
			if uint64(len(b))%es != 0 {
				return nil, bad("%s: %d bytes is not a multiple of element size %d", t, len(b), es)
			}
			n := uint64(len(b)) / es
			if t.Kind == KVector && n != t.N {
				return nil, bad("%s: %d elements", t, n)
			}
			if t.Kind == KList && n > t.N {
				return nil, bad("%s: %d elements over limit", t, n)
			}
			out := make([]any, n)
			for i := uint64(0); i < n; i++ {
				e, err := deserialize(t.Elem, b[i*es:(i+1)*es], o)
				if err != nil {
					return nil, err
				}
				out[i] = e
			}
			return out, nil
		}
		// variable-size elements
		if len(b) == 0 {
			if t.Kind == KVector && t.N != 0 {
				return nil, bad("%s: empty", t)
			}
			return []any{}, nil
		}
		if len(b) < 4 {
			return nil, bad("%s: truncated first offset", t)
		}
		first := uint64(binary.LittleEndian.Uint32(b))
		if first%4 != 0 || first == 0 || first > uint64(len(b)) {
			return nil, bad("%s: bad first offset %d (scope %d)", t, first, len(b))
		}
		n := first / 4
		if t.Kind == KVector && n != t.N {
			return nil, bad("%s: %d elements", t, n)
		}
		if t.Kind == KList && n > t.N {
			return nil, bad("%s: %d elements over limit", t, n)
		}
		offs := make([]uint64, n+1)
		for i := uint64(0); i < n; i++ {
			offs[i] = uint64(binary.LittleEndian.Uint32(b[4*i:]))
		}
		offs[n] = uint64(len(b))
		out := make([]any, n)
		for i := uint64(0); i < n; i++ {
			if offs[i] > offs[i+1] || offs[i+1] > uint64(len(b)) {
				return nil, bad("%s: offsets not monotonic / out of scope at %d", t, i)
			}
			e, err := deserialize(t.Elem, b[offs[i]:offs[i+1]], o)
			if err != nil {
				return nil, err
			}
			out[i] = e
		}
		return out, nil
	case KContainer:
		fixedLen := uint64(0)
		for _, f := range t.Fields {
			if f.T.IsFixed() {
				fixedLen += f.T.FixedSize()
			} else {
				fixedLen += 4
			}
		}
		if uint64(len(b)) < fixedLen {
			return nil, bad("%s: %d bytes, fixed part needs %d", t, len(b), fixedLen)
		}
		out := make([]any, len(t.Fields))
		var varIdx []int
		var offs []uint64
		pos := uint64(0)
		for i, f := range t.Fields {
			if f.T.IsFixed() {
				sz := f.T.FixedSize()
				e, err := deserialize(f.T, b[pos:pos+sz], o)
				if err != nil {
					return nil, fmt.Errorf("%s.%s: %w", t, f.Name, err)
				}
				out[i] = e
				pos += sz
			} else {
				offs = append(offs, uint64(binary.LittleEndian.Uint32(b[pos:])))
				varIdx = append(varIdx, i)
				pos += 4
			}
		}
		if len(varIdx) == 0 {
			if uint64(len(b)) != fixedLen {
				return nil, bad("%s: %d bytes, expected %d", t, len(b), fixedLen)
			}
			return out, nil
		}
		if offs[0] != fixedLen {
			return nil, bad("%s: first offset %d != fixed part %d", t, offs[0], fixedLen)
		}
		offs = append(offs, uint64(len(b)))
		for k, i := range varIdx {
			if offs[k] > offs[k+1] || offs[k+1] > uint64(len(b)) {
				return nil, bad("%s: offsets not monotonic / out of scope at field %s", t, t.Fields[i].Name)
			}
			e, err := deserialize(t.Fields[i].T, b[offs[k]:offs[k+1]], o)
			if err != nil {
				return nil, fmt.Errorf("%s.%s: %w", t, t.Fields[i].Name, err)
			}
			out[i] = e
		}
		return out, nil
	}
	return nil, bad("unknown kind")
}

// ---------------------------------------------------------------- merkleization

var zeroHashes [65][32]byte

func init() {
	for i := 1; i < len(zeroHashes); i++ {
		zeroHashes[i] = hash2(zeroHashes[i-1], zeroHashes[i-1])
	}
}

func hash2(a, b [32]byte) [32]byte {
	var buf [64]byte
	copy(buf[:32], a[:])
	copy(buf[32:], b[:])
	return sha256.Sum256(buf[:])
}

func depthFor(limit uint64) int {
	d := 0
	for (uint64(1) << uint(d)) < limit {
		d++
	}
	return d
}

// LimitError is the panic value when a value holds more elements than its type allows: such a
// value is not an instance of the SSZ type and has no hash-tree-root.
type LimitError struct {
	Chunks int
	Limit  uint64
}

func (e LimitError) Error() string {
	return fmt.Sprintf("ssz: %d chunks over the limit of %d", e.Chunks, e.Limit)
}

// merkleize pads chunks with zero chunks to next_pow_of_two(limit) leaves and returns the root.
func merkleize(chunks [][32]byte, limit uint64) [32]byte {
	if limit == 0 {
		limit = 1
	}
	if uint64(len(chunks)) > limit {
		panic(LimitError{Chunks: len(chunks), Limit: limit})
	}
	depth := depthFor(limit)
	layer := chunks
	for d := 0; d < depth; d++ {
		if len(layer) == 0 {
			return zeroHashes[depth]
		}
		if len(layer)%2 == 1 {
			layer = append(layer[:len(layer):len(layer)], zeroHashes[d])
		}
		next := make([][32]byte, len(layer)/2)
		for i := range next {
			next[i] = hash2(layer[2*i], layer[2*i+1])
		}
		layer = next
	}
	if len(layer) == 0 {
		return zeroHashes[depth]
	}
	return layer[0]
}

func pack(b []byte) [][32]byte {
	n := (len(b) + 31) / 32
	out := make([][32]byte, n)
	for i := 0; i < n; i++ {
		copy(out[i][:], b[32*i:])
	}
	return out
}

func mixInLength(root [32]byte, n uint64) [32]byte {
	var l [32]byte
	binary.LittleEndian.PutUint64(l[:], n)
	return hash2(root, l)
}

func isBasic(t *Type) bool { return t.Kind == KUint || t.Kind == KBool }

func HashTreeRoot(t *Type, v any) [32]byte {
	switch t.Kind {
	case KUint, KBool:
		var c [32]byte
		copy(c[:], Serialize(t, v))
		return c
	case KBytesN:
		return merkleize(pack(v.([]byte)), (t.N+31)/32)
	case KByteList:
		b := v.([]byte)
		return mixInLength(merkleize(pack(b), (t.N+31)/32), uint64(len(b)))
	case KBitvector:
		return merkleize(pack(packBits(v.([]bool), false)), (t.N+255)/256)
	case KBitlist:
		bits := v.([]bool)
		return mixInLength(merkleize(pack(packBits(bits, false)), (t.N+255)/256), uint64(len(bits)))
	case KVector, KList:
		elems := v.([]any)
		var root [32]byte
		if isBasic(t.Elem) {
			var buf bytes.Buffer
			for _, e := range elems {
				serialize(&buf, t.Elem, e)
			}
			es := t.Elem.FixedSize()
			root = merkleize(pack(buf.Bytes()), (t.N*es+31)/32)
		} else {
			chunks := make([][32]byte, len(elems))
			for i, e := range elems {
				chunks[i] = HashTreeRoot(t.Elem, e)
			}
			root = merkleize(chunks, t.N)
		}
		if t.Kind == KList {
			return mixInLength(root, uint64(len(elems)))
		}
		return root
	case KContainer:
		vals := v.([]any)
		chunks := make([][32]byte, len(vals))
		for i, f := range t.Fields {
			chunks[i] = HashTreeRoot(f.T, vals[i])
		}
		return merkleize(chunks, uint64(len(vals)))
	}
	panic("unknown kind")
}

// ---------------------------------------------------------------- structural helpers

// Diff lists the paths at which two values of type t differ (up to max entries).
func Diff(t *Type, a, b any, path string, out *[]string, max int) {
	if len(*out) >= max {
		return
	}
	switch t.Kind {
	case KUint:
		if a != b {
			*out = append(*out, fmt.Sprintf("%s: %v != %v", path, a, b))
		}
	case KBool:
		if a.(bool) != b.(bool) {
			*out = append(*out, fmt.Sprintf("%s: %v != %v", path, a, b))
		}
	case KBytesN, KByteList:
		if !bytes.Equal(a.([]byte), b.([]byte)) {
			*out = append(*out, fmt.Sprintf("%s: %x != %x", path, a, b))
		}
	case KBitvector, KBitlist:
		x, y := a.([]bool), b.([]bool)
		if len(x) != len(y) {
			*out = append(*out, fmt.Sprintf("%s: bit length %d != %d", path, len(x), len(y)))
			return
		}
		for i := range x {
			if x[i] != y[i] {
				*out = append(*out, fmt.Sprintf("%s[%d]: %v != %v", path, i, x[i], y[i]))
				return
			}
		}
	case KVector, KList:
		x, y := a.([]any), b.([]any)
		if len(x) != len(y) {
			*out = append(*out, fmt.Sprintf("%s: length %d != %d", path, len(x), len(y)))
		}
		for i := 0; i < len(x) && i < len(y); i++ {
			Diff(t.Elem, x[i], y[i], fmt.Sprintf("%s[%d]", path, i), out, max)
		}
	case KContainer:
		x, y := a.([]any), b.([]any)
		for i, f := range t.Fields {
			Diff(f.T, x[i], y[i], path+"."+f.Name, out, max)
		}
	}
}

// DiffBytes decodes two encodings and reports differing field paths (for failure messages).
func DiffBytes(t *Type, a, b []byte) string {
	if bytes.Equal(a, b) {
		return ""
	}
	va, ea := Deserialize(t, a)
	vb, eb := Deserialize(t, b)
	if ea != nil || eb != nil {
		return fmt.Sprintf("cannot decode for diff: %v / %v (lengths %d, %d)", ea, eb, len(a), len(b))
	}
	var all []string
	Diff(t, va, vb, "", &all, 400)
	// derived history (roots of earlier states/blocks) last: the primary divergence is elsewhere
	var out, derived []string
	for _, l := range all {
		if strings.HasPrefix(l, ".state_roots") || strings.HasPrefix(l, ".block_roots") || strings.HasPrefix(l, ".latest_block_header") || strings.HasPrefix(l, ".historical") {
			derived = append(derived, l)
		} else {
			out = append(out, l)
		}
	}
	out = append(out, derived...)
	if len(out) > 12 {
		out = out[:12]
	}
	s := ""
	for _, l := range out {
		s += l + "; "
	}
	return s
}

// Clone deep-copies a value.
func Clone(t *Type, v any) any {
	switch t.Kind {
	case KUint, KBool:
		return v
	case KBytesN, KByteList:
		return append([]byte{}, v.([]byte)...)
	case KBitvector, KBitlist:
		return append([]bool{}, v.([]bool)...)
	case KVector, KList:
		x := v.([]any)
		out := make([]any, len(x))
		for i := range x {
			out[i] = Clone(t.Elem, x[i])
		}
		return out
	case KContainer:
		x := v.([]any)
		out := make([]any, len(x))
		for i, f := range t.Fields {
			out[i] = Clone(f.T, x[i])
		}
		return out
	}
	panic("unknown kind")
}
