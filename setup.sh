#!/bin/sh
# Warm the build cache: compile the test binary of every check claimed in MANIFEST.json, from files on disk only.
set -e
cd "$(dirname "$0")"
export GOFLAGS=-mod=mod GOPROXY=off GOSUMDB=off GOTOOLCHAIN=local
mkdir -p .build evidence replays/new
ids=$(python3 -c "import json;print(' '.join(c['property_id'] for c in json.load(open('MANIFEST.json'))['checks']))")
cd harness
for id in $ids; do
  n=$(echo $id | tr A-Z a-z)
  extra=""
  [ "$id" = "C17" ] && extra="-race"
  go test -c -tags verif -vet=off $extra -o ../.build/$id.test ./checks/$n || exit 1
done
echo setup ok
