#!/bin/sh
# Warm the build cache: compile every check's test binary from files on disk only.
set -e
cd "$(dirname "$0")/harness"
export GOFLAGS=-mod=mod GOPROXY=off GOSUMDB=off GOTOOLCHAIN=local
mkdir -p ../.build ../evidence ../replays/new
for d in checks/*/; do
  n=$(basename "$d")
  go test -c -tags verif -vet=off -o ../.build/$(echo $n | tr a-z A-Z).test ./checks/$n || exit 1
done
echo setup ok
