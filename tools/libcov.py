#!/usr/bin/env python3
"""Developer aid: which statements of /repo's eth2 packages do the checks execute at all?
usage: tools/libcov.py [--tier quick] [--shards-per-check N] [ID ...]   (default: every check, 4 shards of the quick tier each)
Builds every check's test binary with -cover -coverpkg=github.com/protolambda/zrnt/eth2/..., runs the
shards with -test.coverprofile, merges the profiles (mode set) and writes
  /var/tmp/libcov/merged.out      the merged profile
  /var/tmp/libcov/funcs.txt       go tool cover -func of it
  /var/tmp/libcov/uncovered.txt   functions of the library at 0 % that are not test helpers, grouped by file
Nothing here is a verdict; the output is used to find library behaviour no generator reaches.
"""
import os, re, subprocess, sys, json, shutil, glob

ROOT = "/verif"; HARNESS = ROOT + "/harness"; OUT = "/var/tmp/libcov"
args = sys.argv[1:]
tier = "quick"; nsh = 4; ids = []
i = 0
while i < len(args):
    if args[i] == "--tier": tier = args[i + 1]; i += 2
    elif args[i] == "--shards-per-check": nsh = int(args[i + 1]); i += 2
    else: ids.append(args[i].upper()); i += 1
if not ids:
    ids = ["C%02d" % k for k in range(1, 21)]
env = dict(os.environ, GOFLAGS="-mod=mod", GOPROXY="off", GOSUMDB="off", GOTOOLCHAIN="local", VERIF_ROOT=ROOT)
os.makedirs(OUT, exist_ok=True)
profiles = []
for cid in ids:
    pkg = cid.lower()
    binp = "%s/%s.cover.test" % (OUT, cid)
    cmd = ["go", "test", "-c", "-tags", "verif", "-vet=off", "-cover", "-covermode=set",
           "-coverpkg=github.com/protolambda/zrnt/eth2/...", "-o", binp, "./checks/" + pkg]
    p = subprocess.run(cmd, cwd=HARNESS, env=env, capture_output=True, text=True)
    if p.returncode != 0:
        print(cid, "build failed", p.stdout[-800:], p.stderr[-800:]); continue
    procs = []
    total = {"C17": 4}.get(cid, 16)
    for s in range(min(nsh, total)):
        e = dict(env, VERIF_TIER=tier, VERIF_SEED="1", VERIF_SHARD=str(s), VERIF_NSHARDS=str(total),
                 VERIF_OUT="%s/%s-shard-%d.json" % (OUT, cid, s), VERIF_NOREPLAYS_NEW="1")
        prof = "%s/%s-%d.out" % (OUT, cid, s)
        lf = open("%s/%s-%d.log" % (OUT, cid, s), "w")
        procs.append((prof, subprocess.Popen([binp, "-test.run", "^TestCheck$", "-test.timeout", "0", "-test.count", "1",
                                             "-test.coverprofile", prof], cwd="%s/checks/%s" % (HARNESS, pkg), env=e, stdout=lf, stderr=subprocess.STDOUT)))
    for prof, pr in procs:
        pr.wait()
        if os.path.exists(prof): profiles.append(prof)
    os.remove(binp)
    print(cid, "done", flush=True)
# merge
blocks = {}
for prof in glob.glob(OUT + "/C*-*.out"):
    for line in open(prof):
        if line.startswith("mode:"): continue
        m = re.match(r"(\S+) (\d+) (\d+)$", line.strip())
        if not m: continue
        k = (m.group(1), m.group(2)); blocks[k] = max(blocks.get(k, 0), int(m.group(3)))
with open(OUT + "/merged.out", "w") as f:
    f.write("mode: set\n")
    for (b, n), c in sorted(blocks.items()):
        f.write("%s %s %d\n" % (b, n, 1 if c else 0))
p = subprocess.run(["go", "tool", "cover", "-func", OUT + "/merged.out"], cwd=HARNESS, env=env, capture_output=True, text=True)
open(OUT + "/funcs.txt", "w").write(p.stdout)
unc = {}
for line in p.stdout.splitlines():
    m = re.match(r"(\S+):(\d+):\s+(\S+)\s+([\d.]+)%", line)
    if not m: continue
    f, ln, fn, pct = m.group(1), m.group(2), m.group(3), float(m.group(4))
    if pct == 0.0:
        unc.setdefault(f.replace("github.com/protolambda/zrnt/", ""), []).append("%s:%s" % (fn, ln))
with open(OUT + "/uncovered.txt", "w") as f:
    for k in sorted(unc):
        f.write("%s (%d): %s\n" % (k, len(unc[k]), ", ".join(unc[k])))
print(p.stdout.splitlines()[-1] if p.stdout else p.stderr)
