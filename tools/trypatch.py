#!/usr/bin/env python3
"""Apply a patch file to a scratch COPY of /repo's HEAD commit, run checks against the copy.
usage: trypatch.py <ids comma-sep> <patch.diff> [thorough] [--seed N]
Exit code: 0 if every listed check was run; prints CAUGHT/MISSED per check."""
import subprocess, sys, os, shutil, tempfile
ids, patch = sys.argv[1:3]
tier = "thorough" if "thorough" in sys.argv[3:] else "quick"
seed = "1"
if "--seed" in sys.argv:
    seed = sys.argv[sys.argv.index("--seed") + 1]
scratch = tempfile.mkdtemp(prefix="zrnt-patch-", dir="/var/tmp")
repo = os.path.join(scratch, "repo"); build = os.path.join(scratch, "build")
try:
    os.makedirs(repo); os.makedirs(build)
    subprocess.run("git -C /repo archive HEAD | tar -x -C %s" % repo, shell=True, check=True)
    a = subprocess.run(["git", "apply", "--unsafe-paths", "--directory", repo, os.path.abspath(patch)], capture_output=True, text=True, cwd="/")
    if a.returncode != 0:
        a = subprocess.run(["patch", "-p1", "-i", os.path.abspath(patch)], capture_output=True, text=True, cwd=repo)
        if a.returncode != 0:
            print("PATCH DOES NOT APPLY:", a.stdout[-400:], a.stderr[-400:]); sys.exit(3)
    env = dict(os.environ, GOFLAGS="-mod=mod", GOPROXY="off", GOSUMDB="off", GOTOOLCHAIN="local")
    b = subprocess.run("go build ./...", shell=True, cwd=repo, capture_output=True, text=True, env=env)
    if b.returncode != 0:
        print("PATCHED TREE DOES NOT COMPILE:", b.stderr[-500:]); sys.exit(4)
    env.update(VERIF_REPO=repo, VERIF_BUILD=build, VERIF_SEED=seed)
    for i in ids.split(","):
        p = subprocess.run(["/verif/check", i, "--no-evidence", "--tier", tier], capture_output=True, text=True, env=env)
        lines = [l for l in p.stdout.splitlines() if l.startswith(("VIOLATION", "check ", "INCONCLUSIVE", "KNOWN", "  signature", "  detail", "BUILD"))]
        print("[%s %s seed=%s] rc=%d %s" % (i, tier, seed, p.returncode, "CAUGHT" if p.returncode == 1 else "MISSED" if p.returncode == 0 else "INCONCLUSIVE"))
        for l in lines[:10]: print("    " + l[:400])
finally:
    shutil.rmtree(scratch, ignore_errors=True)
    for i in ids.split(","):
        subprocess.run("rm -f /verif/replays/new/%s-*" % i, shell=True)
