#!/bin/sh
# Developer aid: run a check against a clean export of /repo's HEAD commit (immune to uncommitted
# edits other workers may have in /repo's working tree). usage: tools/headrun.sh C03 [check args]
set -e
sha=$(git -C /repo rev-parse --short HEAD)
dir=/var/tmp/zrnt-head-$sha
if [ ! -d "$dir/repo" ]; then
  rm -rf /var/tmp/zrnt-head-*
  mkdir -p "$dir/repo" "$dir/build"
  git -C /repo archive HEAD | tar -x -C "$dir/repo"
fi
VERIF_REPO=$dir/repo VERIF_BUILD=$dir/build exec /verif/check "$@"
