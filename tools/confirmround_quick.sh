#!/bin/bash
# usage: tools/confirmround_quick.sh <ID> <checks> <slugA> <slugB> <slugC>   (like confirmround.sh, quick tier only)
id=$1; checks=$2; shift 2
for x in A B C; do
  slug=$1; shift
  [ -z "$slug" ] && continue
  [ "$slug" = "-" ] && continue
  python3 /verif/tools/confirmseed.py /tmp/seedwt/$id/_seed/$x $id-R4$x-$slug $checks
done
