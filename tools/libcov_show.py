#!/usr/bin/env python3
"""usage: libcov_show.py <path-substring> [...]  — prints the uncovered source ranges of /var/tmp/libcov/merged.out for matching files"""
import re, sys
blocks = {}
for line in open('/var/tmp/libcov/merged.out'):
    m = re.match(r"github.com/protolambda/zrnt/(\S+):(\d+)\.(\d+),(\d+)\.(\d+) (\d+) (\d+)$", line.strip())
    if not m: continue
    f = m.group(1)
    if int(m.group(7)) == 0:
        blocks.setdefault(f, []).append((int(m.group(2)), int(m.group(4))))
for f in sorted(blocks):
    if not any(a in f for a in sys.argv[1:]): continue
    src = open('/repo/' + f).read().splitlines()
    print("=====", f)
    for a, b in sorted(set(blocks[f])):
        txt = " | ".join(s.strip() for s in src[a-1:min(b, a+3)])
        print("  %d-%d: %s" % (a, b, txt[:160]))
