#!/usr/bin/env python3
"""Confirm a seeded change and run checks against it.
usage: confirmseed.py <seed-dir> <name> <checks comma-sep> [--thorough-if-missed]
 <seed-dir> holds patch.diff, demo_test.go, meta.json (with demo_run) as delivered by a seeding agent.
Steps, all in a scratch export of /repo's HEAD (never /repo itself):
 1. demo WITHOUT the patch must pass; 2. demo WITH the patch must fail; 3. the repository's own test
 suite must pass WITH the patch (demo file removed); 4. each listed check is run against the patched copy.
Writes /verif/seeded/<name>/{patch.diff, demo_test.go, meta.json}."""
import json, os, re, shutil, subprocess, sys, tempfile

seed_dir, name, checks = sys.argv[1:4]
thorough_if_missed = "--thorough-if-missed" in sys.argv
meta = json.load(open(os.path.join(seed_dir, "meta.json")))
demo_run = meta["demo_run"]
m = re.search(r"cp\s+\S+demo_test\.go\s+(\S+)", demo_run)
dest = m.group(1)
testcmd = demo_run.split("&&", 1)[1].strip()
env = dict(os.environ, GOFLAGS="-mod=mod", GOPROXY="off", GOSUMDB="off", GOTOOLCHAIN="local")
scratch = tempfile.mkdtemp(prefix="zrnt-seed-", dir="/var/tmp")
repo = os.path.join(scratch, "repo"); build = os.path.join(scratch, "build")
out = {"ran": []}
def sh(cmd, cwd, timeout=1800):
    p = subprocess.run(cmd, shell=True, cwd=cwd, env=env, capture_output=True, text=True, errors="replace", timeout=timeout)
    return p.returncode, (p.stdout + p.stderr)
try:
    os.makedirs(repo); os.makedirs(build)
    subprocess.run("git -C /repo archive HEAD | tar -x -C %s" % repo, shell=True, check=True)
    head = subprocess.run("git -C /repo rev-parse --short HEAD", shell=True, capture_output=True, text=True).stdout.strip()
    shutil.copy(os.path.join(seed_dir, "demo_test.go"), os.path.join(repo, dest))
    rc0, o0 = sh(testcmd, repo)
    out["demo_without_change"] = "pass" if rc0 == 0 else "FAIL"
    a = subprocess.run(["git", "apply", "--unsafe-paths", "--directory", repo, os.path.abspath(os.path.join(seed_dir, "patch.diff"))], capture_output=True, text=True, cwd="/")
    if a.returncode != 0:
        a = subprocess.run(["patch", "-p1", "-i", os.path.abspath(os.path.join(seed_dir, "patch.diff"))], capture_output=True, text=True, cwd=repo)
    out["patch_applies"] = a.returncode == 0
    if a.returncode != 0:
        print(json.dumps(out)); print(a.stdout, a.stderr); sys.exit(3)
    rc1, o1 = sh(testcmd, repo)
    out["demo_with_change"] = "fail" if rc1 != 0 else "PASSES(not a demonstration)"
    fails = [l for l in o1.splitlines() if "FAIL" in l or "Error" in l or "violat" in l.lower()][:4]
    out["demo_failure_lines"] = fails
    os.remove(os.path.join(repo, dest))
    rcb, ob = sh("go build ./... && go test -vet=off -count=1 ./...", repo)
    out["suite_with_change"] = "pass" if rcb == 0 else "FAIL"
    out["repo_head"] = head
    confirmed = rc0 == 0 and rc1 != 0 and rcb == 0
    out["confirmed"] = confirmed
    env2 = dict(env, VERIF_REPO=repo, VERIF_BUILD=build)
    results = {}
    for cid in checks.split(","):
        for tier in ["quick"] + (["thorough"] if thorough_if_missed else []):
            p = subprocess.run(["/verif/check", cid, "--no-evidence", "--tier", tier], capture_output=True, text=True, env=env2)
            sigs = [l.strip() for l in p.stdout.splitlines() if l.strip().startswith("signature:")]
            verdict = "CAUGHT" if p.returncode == 1 else "MISSED" if p.returncode == 0 else "INCONCLUSIVE"
            results["%s/%s" % (cid, tier)] = {"verdict": verdict, "signatures": sigs[:4]}
            out["ran"].append("VERIF_REPO=<patched copy of HEAD %s> ./check %s --tier %s -> %s" % (head, cid, tier, verdict))
            subprocess.run("rm -f /verif/replays/new/%s-*" % cid, shell=True)
            if verdict == "CAUGHT":
                break
    out["checks"] = results
    dst = os.path.join("/verif/seeded", name)
    os.makedirs(dst, exist_ok=True)
    if os.path.realpath(seed_dir) != os.path.realpath(dst):
        shutil.copy(os.path.join(seed_dir, "patch.diff"), dst)
        shutil.copy(os.path.join(seed_dir, "demo_test.go"), dst)
    full = {"property": meta.get("property"), "title": meta.get("title"), "mechanism": meta.get("mechanism"), "needs": meta.get("needs"),
            "files_changed": meta.get("files_changed"), "demo_run": demo_run, "confirmation": out}
    json.dump(full, open(os.path.join(dst, "meta.json"), "w"), indent=1)
    print(name, json.dumps({k: out[k] for k in ("demo_without_change", "demo_with_change", "suite_with_change", "confirmed")}), json.dumps(results))
finally:
    shutil.rmtree(scratch, ignore_errors=True)
