#!/usr/bin/env python3
"""Sensitivity helper: apply one textual mutation to a scratch COPY of /repo (never to /repo itself),
run checks against the copy, remove the copy.
usage: trymut.py <ids comma-sep> <repo-relative file> <old> <new> [--any] [--tier thorough]"""
import subprocess, sys, os, shutil, tempfile
ids, path, old, new = sys.argv[1:5]
tier = "thorough" if "thorough" in sys.argv[5:] else "quick"
scratch = tempfile.mkdtemp(prefix="zrnt-mut-", dir="/var/tmp")
repo = os.path.join(scratch, "repo")
build = os.path.join(scratch, "build")
try:
    subprocess.run(["rsync", "-a", "--exclude", ".git", "/repo/", repo + "/"], check=True)
    os.makedirs(build)
    full = os.path.join(repo, path)
    src = open(full).read()
    n = src.count(old)
    if n != 1 and "--any" not in sys.argv:
        print("pattern occurs %d times" % n); sys.exit(3)
    open(full, "w").write(src.replace(old, new, 1))
    env = dict(os.environ, GOFLAGS="-mod=mod", GOPROXY="off", GOSUMDB="off", GOTOOLCHAIN="local")
    b = subprocess.run("go build ./...", shell=True, cwd=repo, capture_output=True, text=True, env=env)
    if b.returncode != 0:
        print("MUTANT DOES NOT COMPILE:", b.stderr[-500:]); sys.exit(4)
    env.update(VERIF_REPO=repo, VERIF_BUILD=build)
    for i in ids.split(","):
        extra = ["--fuzz-only"] if "--fuzz" in sys.argv else []
        p = subprocess.run(["/verif/check", i, "--no-evidence", "--tier", tier] + extra, capture_output=True, text=True, env=env)
        lines = [l for l in p.stdout.splitlines() if l.startswith(("VIOLATION", "check ", "INCONCLUSIVE", "KNOWN", "  signature", "BUILD"))]
        print("[%s] rc=%d %s" % (i, p.returncode, "CAUGHT" if p.returncode == 1 else "MISSED" if p.returncode == 0 else "INCONCLUSIVE"))
        for l in lines[:14]: print("    " + l[:300])
finally:
    shutil.rmtree(scratch, ignore_errors=True)
    for i in ids.split(","):
        subprocess.run("rm -f /verif/replays/new/%s-*" % i, shell=True)
