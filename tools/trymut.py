#!/usr/bin/env python3
"""Sensitivity helper: apply one textual mutation to /repo, run checks, restore.
usage: trymut.py <ids comma-sep> <repo-relative file> <old> <new> [--count N]
Never leaves /repo modified (restores the file with git checkout)."""
import subprocess, sys, os
ids, path, old, new = sys.argv[1:5]
full = os.path.join("/repo", path)
src = open(full).read()
n = src.count(old)
if n != 1 and "--any" not in sys.argv:
    print("pattern occurs %d times" % n); sys.exit(3)
open(full, "w").write(src.replace(old, new, 1))
try:
    b = subprocess.run("cd /repo && GOFLAGS=-mod=mod GOPROXY=off go build ./... ", shell=True, capture_output=True, text=True)
    if b.returncode != 0:
        print("MUTANT DOES NOT COMPILE:", b.stderr[-500:]); sys.exit(4)
    for i in ids.split(","):
        p = subprocess.run(["/verif/check", i, "--no-evidence"], capture_output=True, text=True)
        lines = [l for l in p.stdout.splitlines() if l.startswith(("VIOLATION", "check ", "INCONCLUSIVE", "KNOWN", "  signature", "BUILD"))]
        print("[%s] rc=%d %s" % (i, p.returncode, "CAUGHT" if p.returncode == 1 else "MISSED" if p.returncode == 0 else "INCONCLUSIVE"))
        for l in lines[:8]: print("    " + l[:300])
finally:
    subprocess.run(["git", "-C", "/repo", "checkout", "--", path])
    for i in ids.split(","):
        subprocess.run("rm -f /verif/replays/new/%s-*" % i, shell=True)
