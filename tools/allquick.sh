#!/bin/bash
# usage: tools/allquick.sh [--evidence] seed...   — runs every claimed check's quick tier at each seed, prints rc + summary
# (without --evidence the evidence files are left alone)
EV="--no-evidence"; if [ "$1" = "--evidence" ]; then EV=""; shift; fi
cd /verif
for seed in "${@:-1}"; do
  for id in C01 C02 C03 C04 C05 C06 C07 C08 C09 C10 C11 C12 C13 C14 C15 C16 C17 C18 C19 C20; do
    out=$(VERIF_SEED=$seed ./check $id $EV 2>&1); rc=$?
    echo "seed=$seed $id rc=$rc $(echo "$out" | grep '^check ' | sed 's/^check C[0-9]* //')"
    if [ $rc -ne 0 ]; then echo "$out" | grep -v '^check ' | head -8 | cut -c1-400; fi
  done
done
