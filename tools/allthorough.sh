#!/bin/bash
# usage: tools/allthorough.sh [seed] [ids...]  — runs the thorough tier of the given (default: all) checks one after the other, no evidence written
seed=${1:-1}; shift
ids=${@:-C01 C02 C03 C04 C05 C06 C07 C08 C09 C10 C11 C12 C13 C14 C15 C16 C17 C18 C19 C20}
cd "$(dirname "$0")/.."
for id in $ids; do
  out=$(VERIF_SEED=$seed ./check $id --tier thorough --no-evidence 2>&1); rc=$?
  echo "seed=$seed $id rc=$rc $(echo "$out" | grep '^check ' | sed 's/^check C[0-9]* //')"
  if [ $rc -ne 0 ]; then echo "$out" | grep -v '^check ' | head -12 | cut -c1-600; fi
done
