#!/bin/bash
# Developer aid: a tiny job queue so that seeded-change confirmations do not all run at once.
# usage: cq_worker.sh <worker-id>   — takes the oldest file in /var/tmp/cq/jobs, runs it with bash, repeats; stops when /var/tmp/cq/stop exists
id=$1
while [ ! -e /var/tmp/cq/stop ]; do
  j=$(ls -tr /var/tmp/cq/jobs 2>/dev/null | head -1)
  if [ -z "$j" ]; then sleep 5; continue; fi
  if mv /var/tmp/cq/jobs/$j /var/tmp/cq/done/$j.w$id 2>/dev/null; then
    bash /var/tmp/cq/done/$j.w$id >> /var/tmp/vlogs/cq_$j.log 2>&1
  fi
done
