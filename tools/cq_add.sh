#!/bin/bash
# usage: cq_add.sh <round e.g. R5> <ID> <checks> <slugA> <slugB> <slugC>  — enqueues one confirmation job per delivered change (quick tier)
r=$1; id=$2; checks=$3; shift 3
for x in A B C; do
  slug=$1; shift
  [ -z "$slug" ] && continue
  [ "$slug" = "-" ] && continue
  echo "python3 /verif/tools/confirmseed.py ${SEEDWT:-/tmp/seedwt}/$id/_seed/$x $id-$r$x-$slug $checks" > /var/tmp/cq/jobs/$(date +%s%N)-$id-$x
  sleep 0.01
done
