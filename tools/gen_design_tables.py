#!/usr/bin/env python3
"""Regenerates the generated tables of DESIGN.md (between the BEGIN/END GENERATED markers) from
known_findings.json and seeded/*/meta.json."""
import json, os, glob, re
ROOT = os.path.dirname(os.path.dirname(os.path.abspath(__file__)))
kf = json.load(open(os.path.join(ROOT, "known_findings.json")))["findings"]
def norm(i): return i if i.startswith("F-") else "F-" + i
rows = []
for f in sorted(kf, key=lambda f: (f["property"], norm(f["id"]))):
    what = re.sub(r"^fixed: property=\S+ (\S+ )?", "", f["what"]).strip()
    what = re.sub(r"^[0-9a-f]{7} ", "", what)
    rows.append("| %s | %s | %s | %s | `%s` | %s |" % (norm(f["id"]), f["property"], f["status"], f.get("commit", "—"), f["signature"], what.replace("|", "/")[:260]))
findings = "| id | property | status | /repo commit | signature | what failed |\n|---|---|---|---|---|---|\n" + "\n".join(rows)
srows = []
for m in sorted(glob.glob(os.path.join(ROOT, "seeded", "*", "meta.json"))):
    d = json.load(open(m)); name = os.path.basename(os.path.dirname(m))
    c = d.get("confirmation", {})
    res = "; ".join("%s: %s%s" % (k, v["verdict"], (" (" + ", ".join(s.replace("signature: ", "") for s in v["signatures"][:2]) + ")") if v["signatures"] else "") for k, v in c.get("checks", {}).items())
    srows.append("| %s | %s | %s | %s | %s |" % (name, d.get("property"), (d.get("title") or "").replace("|", "/")[:150], (d.get("needs") or "").replace("|", "/").replace("\n", " ")[:220], res))
seeded = "| seeded change | breaks | what it is | what it needs to manifest | checks run against it |\n|---|---|---|---|---|\n" + "\n".join(srows)
arows = []
man = json.load(open(os.path.join(ROOT, "MANIFEST.json")))
for c in man["checks"]:
    i = c["property_id"]
    try:
        ev = json.load(open(os.path.join(ROOT, "evidence", i + ".json")))
        cov = ev["coverage"]
        counts = "%s: %d cases, %d distinct non-trivial, %.0f s" % (ev["tier"], cov["evaluations"], cov["distinct_nontrivial"], ev["wall_s"])
    except Exception:
        counts = "—"
    nfix = sum(1 for f in kf if f["property"] == i and f["status"] == "fixed")
    nknown = sum(1 for f in kf if f["property"] == i and f["status"] == "known")
    nseed = sum(1 for m in glob.glob(os.path.join(ROOT, "seeded", "*", "meta.json")) if json.load(open(m)).get("property") == i)
    arows.append("| %s | %s | %s | %d fixed%s | %d |" % (i, c["level_claimed"]["category"], counts, nfix, (", %d known" % nknown) if nknown else "", nseed))
asbuilt = "| property | level | last committed evidence | findings | seeded changes |\n|---|---|---|---|---|\n" + "\n".join(arows)
p = os.path.join(ROOT, "DESIGN.md")
s = open(p).read()
for tag, body in (("FINDINGS", findings), ("SEEDED", seeded), ("ASBUILT", asbuilt)):
    b, e = "<!-- BEGIN GENERATED %s -->" % tag, "<!-- END GENERATED %s -->" % tag
    if b in s:
        s = s[:s.index(b) + len(b)] + "\n" + body + "\n" + s[s.index(e):]
open(p, "w").write(s)
print("findings", len(rows), "seeded", len(srows))
