#!/usr/bin/env python3
"""usage: addfinding.py <id> <property> <status> <commit-or-> <signature> <replay> <what>"""
import json, sys, fcntl, os
p = "/verif/known_findings.json"
with open(p, "r+") as f:
    fcntl.flock(f, fcntl.LOCK_EX)
    d = json.load(f)
    i, prop, status, commit, sig, replay, what = sys.argv[1:8]
    d["findings"] = [x for x in d["findings"] if x["id"] != i]
    e = {"id": i, "property": prop, "status": status, "signature": sig, "replay": replay, "what": what}
    if commit != "-": e["commit"] = commit
    d["findings"].append(e)
    f.seek(0); f.truncate()
    f.write('{"findings": [\n' + ",\n".join(" " + json.dumps(x) for x in d["findings"]) + "\n]}\n")
