#!/usr/bin/env python3
"""Print the prompt given to a seeding sub-agent: ONLY the text of one property + a scratch worktree path.
usage: seed_prompt.py <ID> <worktree> [n_changes] [--hard] [--focus=<areas named in the property text>]
The agent never sees /verif. Worktree: git -C /repo worktree add --detach <worktree> HEAD (removed afterwards)."""
import json, sys
pid, wt = sys.argv[1], sys.argv[2]
n = int(sys.argv[3]) if len(sys.argv) > 3 and sys.argv[3].isdigit() else 3
hard = "--hard" in sys.argv
focus = [a.split("=",1)[1] for a in sys.argv if a.startswith("--focus=")]
p = [json.loads(l) for l in open('/verif/properties.jsonl') if l.strip()]
p = [x for x in p if x["id"] == pid][0]
prop = "Property %s — %s\n\nStatement: %s\n\nQuantifier (%s): %s\n\nWhy the existing tests cannot settle it: %s\n\nCode the property is anchored in: %s\n" % (
    pid, p["title"], p["statement"], ", ".join(p["quantifier"]["over"]), p["quantifier"]["text"], p["why_tests_cant"], ", ".join(p["anchors"]["files"]))
names = [chr(ord('A') + i) for i in range(n)]
nl = ", ".join(names[:-1]) + " and " + names[-1]
dirs = ", ".join("%s/_seed/%s/" % (wt, x) for x in names)
hardtxt = "" if not hard else (" Prefer HARD-TO-REACH changes: ones whose violation needs a DEEP or RARE situation rather than a boundary that any thorough test would visit — for example an interaction of two features, a state only reachable after a long or very specific sequence of operations, arithmetic that only differs for unusual but legal values or counts, behaviour that only differs in one fork / one type / one preset's sizes, two call sites that must cooperate, or effects that cancel out unless observed at a specific moment. Avoid the obvious boundaries (first/last element, empty input, exact limit, simple thresholds).")
focustxt = "" if not focus else (" To spread the changes over the code the property covers, place them in these areas (one change per area, in this order of preference): " + focus[0] + ".")
print(f"""You are helping evaluate a verification effort by playing the role of a developer who introduces a subtle regression. Work ONLY inside the scratch git worktree {wt} (a checkout of the Go library protolambda/zrnt — an Ethereum consensus-layer implementation). Do not read or write anything under /repo or /verif. No network. Every shell call must start with: export GOFLAGS=-mod=mod GOPROXY=off GOSUMDB=off GOTOOLCHAIN=local

Here is a semantic property the library is supposed to satisfy:

{prop}

YOUR TASK: produce {n} independent, realistic changes (call them {nl}) to the library source under {wt}/eth2 that each BREAK this property while the code still compiles (`go build ./...`) and the repository's existing test suite still passes (`go test -vet=off -count=1 ./...` from {wt}; most spec-vector tests skip offline — that is expected). Each change should look like a plausible refactoring slip or optimisation bug a maintainer could make (a few lines), NOT sabotage, and should need something SPECIFIC to manifest rather than being exposed at once by ordinary use: e.g. a particular multi-step sequence of operations, an unusual but legal input or configuration, a boundary value, a particular fork or fork-upgrade moment, state that only arises after several steps, or two cooperating sites that each look fine alone. The changes must differ from each other in mechanism and code location.{hardtxt}{focustxt}

For each change deliver, inside {dirs}:
 1. patch.diff — `git diff` of ONLY that change against the worktree's HEAD (produce it with the other changes reverted; the patches must apply independently with `git apply`).
 2. a demonstration: a self-contained Go test file (demo_test.go, plus a note saying into which package directory of the worktree it must be copied to run, e.g. eth2/beacon/phase0/) that FAILS with the change applied and PASSES without it. The demonstration may only use the library's public API and Go's standard library plus the modules already in go.mod (github.com/protolambda/ztyp, bls12-381-util, kilic/bls12-381, yaml). It must be deterministic. Building the needed inputs by hand is part of the job (e.g. construct a small genesis state with phase0.KickStartState and a custom small *common.Spec copied from configs.Minimal with a few fields changed, advance it with common.ProcessSlots, build objects directly, etc.). Confirm both directions yourself: run it with the change (fails) and with the change reverted (passes), and paste the two outputs into a file evidence.txt.
 3. meta.json — {{"property": "{pid}", "title": "<one line>", "mechanism": "<what was changed and why it breaks the property>", "needs": "<what specific conditions are needed for the violation to manifest>", "files_changed": [...], "demo_run": "cp _seed/<X>/demo_test.go <package dir>/demo_test.go && go test -vet=off -count=1 -run <TestName> -v ./<package dir>/"}} (demo_run must have exactly this shape: one cp, then &&, then one go test command, run from the worktree root).

Leave the worktree's tracked files UNMODIFIED at the end (git checkout the source files; the _seed/ directory is untracked and stays). Do not commit. If one of the changes turns out impossible to demonstrate within the public API, replace it by another one rather than delivering an undemonstrated change.

FINAL REPORT: for each change: one paragraph (mechanism, what it needs to manifest, how the demo shows it), and confirm the existing test suite passes with each change applied.""")
