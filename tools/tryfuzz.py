#!/usr/bin/env python3
"""Sensitivity of the native fuzz stage alone: mutate a scratch COPY of /repo, build the instrumented test binary of
the check against it and run only its fuzz targets. usage: tryfuzz.py <ID> <repo-relative file> <old> <new> [seconds]"""
import importlib.machinery, importlib.util, os, shutil, subprocess, sys, tempfile
cid, path, old, new = sys.argv[1:5]
seconds = int(sys.argv[5]) if len(sys.argv) > 5 else 60
scratch = tempfile.mkdtemp(prefix="zrnt-fuzzmut-", dir="/var/tmp")
repo, build = os.path.join(scratch, "repo"), os.path.join(scratch, "build")
try:
    subprocess.run(["rsync", "-a", "--exclude", ".git", "/repo/", repo + "/"], check=True)
    os.makedirs(build)
    full = os.path.join(repo, path)
    src = open(full).read()
    if src.count(old) != 1:
        print("pattern occurs %d times" % src.count(old)); sys.exit(3)
    open(full, "w").write(src.replace(old, new, 1))
    os.environ.update(VERIF_REPO=repo, VERIF_BUILD=build)
    loader = importlib.machinery.SourceFileLoader("chk", "/verif/check")
    spec = importlib.util.spec_from_loader("chk", loader); chk = importlib.util.module_from_spec(spec); loader.exec_module(chk)
    cfg = chk.CHECKS[cid]
    for target, _ in cfg["fuzz"]:
        fbin = chk.build(cid, cfg, fuzz_target=target)
        if fbin is None:
            print("build failed"); sys.exit(4)
        res, viol, infra = chk.native_fuzz(cid, cfg, fbin, target, seconds)
        print(target, res, "CAUGHT" if viol else "MISSED", [(v["sig"], v["msg"][:300]) for v in viol], infra)
        for v in viol:
            os.remove(v["replay"])
finally:
    shutil.rmtree(scratch, ignore_errors=True)
