#!/usr/bin/env python3
"""Re-run tools/confirmseed.py over already stored seeded changes (refreshes seeded/<name>/meta.json against the
current checks and the current /repo HEAD). usage: reconfirm.py [--only-missed] [name-substring ...]"""
import json, os, subprocess, sys
args = [a for a in sys.argv[1:] if not a.startswith("--")]
only_missed = "--only-missed" in sys.argv
base = "/verif/seeded"
for name in sorted(os.listdir(base)):
    d = os.path.join(base, name)
    mp = os.path.join(d, "meta.json")
    if not os.path.isfile(mp) or (args and not any(a in name for a in args)):
        continue
    meta = json.load(open(mp))
    checks = meta.get("confirmation", {}).get("checks", {})
    ids = []
    for k in checks:
        i = k.split("/")[0]
        if i not in ids:
            ids.append(i)
    if only_missed:
        caught = {k.split("/")[0] for k, v in checks.items() if v["verdict"] == "CAUGHT"}
        if all(i in caught for i in ids):
            continue
    if not ids:
        ids = [meta.get("property") or name.split("-")[0]]
    subprocess.run(["python3", "/verif/tools/confirmseed.py", d, name, ",".join(ids), "--thorough-if-missed"])
